// Engine K harness module for the `String` trait (iceoryx2-bb-container/src/string/mod.rs) on StaticString<CAP>:
// every operation from an ARBITRARY valid state (symbolic length and content) against a byte-array reference model.
use super::*;
extern crate alloc;
use internal::StringView;
fn nofmt(_a: core::fmt::Arguments<'_>) -> alloc::string::String { alloc::string::String::new() }
fn nolog(_l: iceoryx2_log::LogLevel, _o: core::fmt::Arguments, _a: core::fmt::Arguments) {}
fn noesc(_b: &[u8]) -> alloc::string::String { alloc::string::String::new() }

pub(crate) const CAP: usize = 3;
type S = StaticString<CAP>;

/// reference model: bytes + length
#[derive(Clone, Copy, PartialEq, Eq)]
pub(crate) struct M { b: [u8; CAP], n: usize }

/// arbitrary valid string: any length <= CAP, any content of supported bytes (1..=127), NUL terminated
fn any_state() -> (S, M) {
    let mut s = S::new();
    let n: usize = kani::any();
    kani::assume(n <= CAP);
    let mut m = M { b: [0; CAP], n };
    let mut i = 0;
    while i < CAP {
        if i < n {
            let c: u8 = kani::any();
            kani::assume(c >= 1 && c <= 127);
            unsafe { s.data_mut()[i].write(c) };
            m.b[i] = c;
        }
        i += 1;
    }
    if n < CAP { unsafe { s.data_mut()[n].write(0) }; }
    unsafe { s.set_len(n as u64) };
    (s, m)
}

/// the string equals the model: length, every byte, NUL terminator
fn same(s: &S, m: &M) -> bool {
    if s.len() != m.n { return false; }
    let bytes = s.as_bytes_with_nul();
    let mut i = 0;
    while i < CAP {
        if i < m.n && bytes[i] != m.b[i] { return false; }
        i += 1;
    }
    bytes[m.n] == 0
}
fn m_occurs_at(m: &M, p: &[u8], i: usize) -> bool {
    if i + p.len() > m.n { return false; }
    let mut k = 0;
    while k < p.len() { if m.b[i + k] != p[k] { return false; } k += 1; }
    true
}
fn m_remove_range(m: &M, idx: usize, len: usize) -> M {
    let mut r = M { b: [0; CAP], n: m.n - len };
    let mut i = 0;
    while i < CAP {
        if i < idx { r.b[i] = m.b[i]; } else if i + len < m.n { r.b[i] = m.b[i + len]; }
        i += 1;
    }
    r
}
fn any_pattern() -> ([u8; 2], usize) {
    let p: [u8; 2] = kani::any();
    let n: usize = kani::any();
    kani::assume(n <= 2);
    (p, n)
}

macro_rules! harness {
    ($name:ident, $body:block) => {
        #[kani::proof]
        #[kani::unwind(6)]
        #[kani::stub(alloc::fmt::format, nofmt)]
        #[kani::stub(iceoryx2_log::__internal_print_log_msg, nolog)]
        #[kani::stub(crate::string::utils::as_escaped_string, noesc)]
        fn $name() $body
    };
}

harness!(string_insert_bytes, {
    let (mut s, m) = any_state();
    let (p, pn) = any_pattern();
    let idx: usize = kani::any();
    kani::assume(idx <= m.n);           // idx > len is a documented fatal_panic
    let r = s.insert_bytes(idx, &p[..pn]);
    let too_long = m.n + pn > CAP;
    let bad = (pn > 0 && (p[0] == 0 || p[0] >= 128)) || (pn > 1 && (p[1] == 0 || p[1] >= 128));
    if too_long {
        assert!(r == Err(StringModificationError::InsertWouldExceedCapacity));
        assert!(same(&s, &m));           // errors change nothing
    } else if bad {
        assert!(r == Err(StringModificationError::InvalidCharacter));
        assert!(same(&s, &m));
    } else {
        assert!(r.is_ok());
        let mut e = M { b: [0; CAP], n: m.n + pn };
        let mut i = 0;
        while i < CAP {
            if i < idx { e.b[i] = m.b[i]; } else if i < idx + pn { e.b[i] = p[i - idx]; } else if i < e.n { e.b[i] = m.b[i - pn]; }
            i += 1;
        }
        assert!(same(&s, &e));
        kani::cover!(pn == 2 && idx == 1);
    }
});

harness!(string_remove, {
    let (mut s, m) = any_state();
    let idx: usize = kani::any();
    kani::assume(idx <= CAP + 1);
    let r = s.remove(idx);
    if idx < m.n {
        assert!(r == Some(m.b[idx]));
        assert!(same(&s, &m_remove_range(&m, idx, 1)));
        kani::cover!(idx == 1 && m.n == 3);
    } else {
        // out of bounds: nothing removed, value unchanged (std::string::String::remove would panic; documented: None)
        assert!(r.is_none());
        assert!(same(&s, &m));
    }
});

harness!(string_remove_range, {
    let (mut s, m) = any_state();
    let idx: usize = kani::any();
    let len: usize = kani::any();
    kani::assume(idx <= CAP + 1 && len <= CAP + 1);
    let r = s.remove_range(idx, len);
    if idx + len <= m.n {
        assert!(r);
        assert!(same(&s, &m_remove_range(&m, idx, len)));
        kani::cover!(len == 2);
    } else {
        assert!(!r);
        assert!(same(&s, &m));
    }
});

harness!(string_find_rfind, {
    let (s, m) = any_state();
    let (p, pn) = any_pattern();
    let pat = &p[..pn];
    let f = s.find(pat);
    let rf = s.rfind(pat);
    // reference: first / last position where the pattern occurs
    let mut first: Option<usize> = None;
    let mut last: Option<usize> = None;
    let mut i = 0;
    while i <= CAP {
        if m_occurs_at(&m, pat, i) { if first.is_none() { first = Some(i); } last = Some(i); }
        i += 1;
    }
    assert!(f == first);
    assert!(rf == last);
    assert!(same(&s, &m));
    kani::cover!(first.is_some() && first != last);
});

harness!(string_strip_prefix_suffix, {
    let (mut s, m) = any_state();
    let (p, pn) = any_pattern();
    let pat = &p[..pn];
    let which: bool = kani::any();
    if which {
        let r = s.strip_prefix(pat);
        let is_prefix = m_occurs_at(&m, pat, 0);
        assert!(r == is_prefix);
        if r { assert!(same(&s, &m_remove_range(&m, 0, pn))); } else { assert!(same(&s, &m)); }
    } else {
        let r = s.strip_suffix(pat);
        let is_suffix = pn <= m.n && m_occurs_at(&m, pat, m.n - pn);
        assert!(r == is_suffix);
        if r { assert!(same(&s, &m_remove_range(&m, m.n - pn, pn))); } else { assert!(same(&s, &m)); }
        kani::cover!(r && pn == 1 && m.n == 3 && m.b[0] == m.b[2]);
    }
});

harness!(string_truncate_pop_push_clear, {
    let (mut s, m) = any_state();
    let op: u8 = kani::any();
    if op == 0 {
        let n: usize = kani::any();
        kani::assume(n <= CAP + 1);
        s.truncate(n);
        if n <= m.n { assert!(same(&s, &m_remove_range(&m, n, m.n - n))); } else { assert!(same(&s, &m)); }
    } else if op == 1 {
        let r = s.pop();
        if m.n == 0 { assert!(r.is_none() && same(&s, &m)); } else { assert!(r == Some(m.b[m.n - 1]) && same(&s, &m_remove_range(&m, m.n - 1, 1))); }
    } else if op == 2 {
        let c: u8 = kani::any();
        let r = s.push(c);
        if m.n == CAP { assert!(r == Err(StringModificationError::InsertWouldExceedCapacity) && same(&s, &m)); }
        else if c == 0 || c >= 128 { assert!(r == Err(StringModificationError::InvalidCharacter) && same(&s, &m)); }
        else { let mut e = m; e.b[m.n] = c; e.n += 1; assert!(r.is_ok() && same(&s, &e)); kani::cover!(true); }
    } else if op == 3 {
        s.clear();
        assert!(same(&s, &M { b: [0; CAP], n: 0 }));
    } else {
        assert!(s.is_empty() == (m.n == 0) && s.is_full() == (m.n == CAP) && s.capacity() == CAP);
    }
});

harness!(string_canary_must_fail, {
    let (mut s, _m) = any_state();
    assert!(s.push(65).is_ok());
});
