// Engine K harness module for port::writer::__InternalEntryHandleMut (C12 "at most one write handle per key; creating a
// second one fails WITHOUT DISTURBING THE FIRST") on the compiled real code -- Kani executes the implicit drops that a
// source-level contract cannot see.  The handle only touches the producer flag of the entry's UnrestrictedAtomicMgmt;
// the writer's shared state is an opaque (never used, never dropped) object behind the thread-safety policy.
use super::*;
extern crate alloc;

type S = crate::service::local::Service;
type State = WriterSharedState<S, CustomKeyMarker>;
type Policy = <S as service::Service>::ArcThreadSafetyPolicy<State>;

fn opaque_policy() -> Policy {
    // an all-zero State that is only moved into the policy object and leaked at the end (never read, never dropped)
    let state: State = unsafe { MaybeUninit::<State>::zeroed().assume_init() };
    match Policy::new(state) {
        Ok(p) => p,
        Err(_) => { kani::assume(false); unreachable!() }
    }
}

fn try_new(mgmt: &UnrestrictedAtomicMgmt, data: *mut u8, policy: &Policy) -> Result<__InternalEntryHandleMut<S>, EntryHandleMutError> {
    __InternalEntryHandleMut::<S>::new(mgmt as *const UnrestrictedAtomicMgmt, data, EventId::new(0), policy.clone())
}

#[kani::proof]
#[kani::unwind(4)]
fn writer_handle_second_is_refused_without_disturbing_first() {
    let mgmt = UnrestrictedAtomicMgmt::new();
    let mut cell = [0u8; 16];
    let data = cell.as_mut_ptr();
    let policy = opaque_policy();

    let first = try_new(&mgmt, data, &policy);
    assert!(first.is_ok());
    // a second handle for the same entry is refused ...
    let second = try_new(&mgmt, data, &policy);
    assert!(matches!(second, Err(EntryHandleMutError::HandleAlreadyExists)));
    drop(second);
    // ... and the refusal leaves the first handle's ownership intact: the entry still has its producer
    assert!(unsafe { mgmt.__internal_acquire_producer() }.is_err());
    let third = try_new(&mgmt, data, &policy);
    assert!(third.is_err());
    drop(third);
    // only dropping the first handle frees the entry again
    drop(first);
    let fourth = try_new(&mgmt, data, &policy);
    assert!(fourth.is_ok());
    kani::cover!(true);
    core::mem::forget(fourth);
    core::mem::forget(policy);
}

// ---- typed write path: EntryHandleMut::{update_with_copy, loan_uninit}, EntryValueUninit::{update_with_copy, value_mut,
// assume_init_and_update, discard} -- C12 "a reader always obtains a value that was written in one piece ... never goes back":
// a loan that is DISCARDED publishes nothing (whatever was half-written into the loaned cell), an update publishes exactly
// the new value.  The handle is assembled from its parts (private fields are visible to this child module).
type TState = WriterSharedState<S, u64>;
type TPolicy = <S as service::Service>::ArcThreadSafetyPolicy<TState>;
fn opaque_tpolicy() -> TPolicy {
    let state: TState = unsafe { MaybeUninit::<TState>::zeroed().assume_init() };
    match TPolicy::new(state) { Ok(p) => p, Err(_) => { kani::assume(false); unreachable!() } }
}

#[kani::proof]
#[kani::unwind(4)]
fn writer_value_discard_publishes_nothing() {
    let (v0, v1, v2, junk): (u64, u64, u64, u64) = (kani::any(), kani::any(), kani::any(), kani::any());
    let atomic: &'static UnrestrictedAtomic<u64> = alloc::boxed::Box::leak(alloc::boxed::Box::new(UnrestrictedAtomic::<u64>::new(v0)));
    let policy = opaque_tpolicy();
    let producer = atomic.acquire_producer().unwrap();
    let handle = EntryHandleMut::<S, u64, u64> { producer, entry_id: EventId::new(0), _shared_state: policy.clone() };

    // copy update
    handle.update_with_copy(v1);
    assert!(atomic.load() == v1);
    // loan + update: the new value, nothing else
    let handle = handle.loan_uninit().update_with_copy(v2);
    assert!(atomic.load() == v2);
    // loan, write SOMETHING into the loaned cell, discard: readers still see the last published value
    let mut loan = handle.loan_uninit();
    loan.value_mut().write(junk);
    let handle = loan.discard();
    assert!(atomic.load() == v2);
    // a discarded loan leaves the handle fully usable and the next update is seen
    let mut loan = handle.loan_uninit();
    loan.value_mut().write(v0);
    let handle = unsafe { loan.assume_init_and_update() };
    assert!(atomic.load() == v0);
    kani::cover!(true);
    core::mem::forget(handle);
    core::mem::forget(policy);
}

#[kani::proof]
#[kani::unwind(4)]
fn writer_handle_canary_must_fail() {
    let mgmt = UnrestrictedAtomicMgmt::new();
    let mut cell = [0u8; 16];
    let policy = opaque_policy();
    let first = try_new(&mgmt, cell.as_mut_ptr(), &policy);
    assert!(first.is_err());
    core::mem::forget(first);
    core::mem::forget(policy);
}
