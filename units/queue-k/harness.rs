// Engine K harness module for iceoryx2_bb_container::queue::MetaQueue on the real MaybeUninit / pointer code (heap flavour
// Queue<Tracked>): operations from an ARBITRARY ring state (symbolic start offset and length, i.e. including wrapped-around
// content), with drop accounting (every element dropped exactly once; a second drop trips an assertion).
use super::*;
extern crate alloc;
fn nofmt(_a: core::fmt::Arguments<'_>) -> alloc::string::String { alloc::string::String::new() }
fn nolog(_l: iceoryx2_log::LogLevel, _o: core::fmt::Arguments, _a: core::fmt::Arguments) {}

pub(crate) const CAP: usize = 3;
const IDS: usize = 8;
static mut DROPS: [u8; IDS] = [0; IDS];
#[derive(Debug)]
pub(crate) struct Tracked { id: u8, v: u8 }
impl Drop for Tracked {
    fn drop(&mut self) { unsafe { assert!(DROPS[self.id as usize] == 0); DROPS[self.id as usize] = 1; } }
}
fn dropped(id: usize) -> bool { unsafe { DROPS[id] == 1 } }
fn drops_total() -> usize { let mut n = 0; let mut i = 0; while i < IDS { if dropped(i) { n += 1; } i += 1; } n }

/// arbitrary ring state: n <= CAP elements with identities 0..n-1 (0 = oldest), ring position arbitrary
fn any_state() -> (Queue<Tracked>, usize, [u8; CAP]) {
    let mut q = Queue::<Tracked>::new(CAP);
    let n: usize = kani::any();
    let start: usize = kani::any();
    kani::assume(n <= CAP && start >= n && start < 4 * CAP);
    let mut vals = [0u8; CAP];
    let mut i = 0;
    while i < CAP {
        if i < n {
            let v: u8 = kani::any();
            vals[i] = v;
            unsafe { q.data_ptr.as_mut_ptr().add((start - n + i) % CAP).write(MaybeUninit::new(Tracked { id: i as u8, v })) };
        }
        i += 1;
    }
    q.start = start;
    q.len = n;
    (q, n, vals)
}

macro_rules! harness {
    ($name:ident, $body:block) => {
        #[kani::proof]
        #[kani::unwind(10)]
        #[kani::stub(alloc::fmt::format, nofmt)]
        #[kani::stub(iceoryx2_log::__internal_print_log_msg, nolog)]
        fn $name() $body
    };
}

harness!(queue_clear_and_drop, {
    let (mut q, n, _v) = any_state();
    if kani::any() {
        q.clear();
        assert!(q.is_empty() && q.len() == 0);
        // every stored element -- also the ones that wrapped around -- dropped exactly once
        assert!(drops_total() == n);
        drop(q);
        assert!(drops_total() == n);
    } else {
        drop(q);
        assert!(drops_total() == n);
    }
    let mut i = 0;
    while i < CAP { assert!(dropped(i) == (i < n)); i += 1; }
    kani::cover!(n == 3);
});

harness!(queue_push_pop_overflow, {
    let (mut q, n, vals) = any_state();
    let op: u8 = kani::any();
    let v: u8 = kani::any();
    if op == 0 {
        let r = q.push(Tracked { id: 7, v });
        assert!(r == (n < CAP));
        assert!(q.len() == if r { n + 1 } else { n });
        // a rejected element is dropped by the callee exactly once, nothing else
        assert!(drops_total() == if r { 0 } else { 1 });
        if !r { assert!(dropped(7)); }
    } else if op == 1 {
        let r = q.pop();
        if n == 0 { assert!(r.is_none()); } else {
            let x = r.unwrap();
            assert!(x.id == 0 && x.v == vals[0] && q.len() == n - 1 && drops_total() == 0);
            core::mem::forget(x);
        }
    } else {
        let r = q.push_with_overflow(Tracked { id: 7, v });
        if n < CAP { assert!(r.is_none() && q.len() == n + 1); }
        else {
            // full: the OLDEST element comes back (moved out, not dropped), the newest CAP remain
            let x = r.unwrap();
            assert!(x.id == 0 && x.v == vals[0] && q.len() == CAP);
            core::mem::forget(x);
            kani::cover!(true);
        }
        assert!(drops_total() == 0);
        // FIFO order of what remains: ids 0..n (minus evicted) then 7
        let first = q.pop().unwrap();
        assert!(first.id == if n == 0 { 7 } else if n < CAP { 0 } else { 1 });
        core::mem::forget(first);
    }
    // peek agrees with the oldest
    core::mem::forget(q);
});

harness!(queue_get_and_peek, {
    let mut q = Queue::<u8>::new(CAP);
    let n: usize = kani::any();
    let start: usize = kani::any();
    kani::assume(n <= CAP && start >= n && start < 4 * CAP);
    let vals: [u8; CAP] = kani::any();
    let mut i = 0;
    while i < CAP {
        if i < n { unsafe { q.data_ptr.as_mut_ptr().add((start - n + i) % CAP).write(MaybeUninit::new(vals[i])) }; }
        i += 1;
    }
    q.start = start; q.len = n;
    let idx: usize = kani::any();
    kani::assume(idx < n);
    assert!(unsafe { q.get_unchecked(idx) } == vals[idx]);
    assert!(q.get(idx) == vals[idx]);
    assert!(q.peek() == Some(&vals[0]));
    kani::cover!(idx == 2);
});

harness!(queue_canary_must_fail, {
    let (mut q, _n, _v) = any_state();
    assert!(q.push(Tracked { id: 7, v: 0 }));
    core::mem::forget(q);
});
