// Engine K harness module for spmc::unrestricted_atomic (C12) on the compiled real code: a value of SIZE bytes with alignment
// ALIGN is stored through the two-step write API (get write cell, write, publish); a load at ANY point between the steps
// returns one complete value -- the last PUBLISHED one -- never a mixture; successive loads never go back.
use super::*;

#[repr(C, align(64))]
struct Mem([u8; 192]);

fn check<const SIZE: usize, const ALIGN: usize>() {
    let mut mem = Mem([0; 192]);
    let mgmt = UnrestrictedAtomicMgmt::new();
    let data = mem.0.as_mut_ptr();
    let lo = data as usize;
    let reserved = 2 * align(SIZE, ALIGN);
    let (a, b, c): (u8, u8, u8) = (kani::any(), kani::any(), kani::any());
    kani::assume(a != b && b != c && a != c);
    unsafe {
        // initial value (cell 0 is the one read while write_cell == 1)
        let c0 = UnrestrictedAtomicMgmt::__internal_get_data_cell(SIZE, ALIGN, data, 0);
        let c1 = UnrestrictedAtomicMgmt::__internal_get_data_cell(SIZE, ALIGN, data, 1);
        // both cells aligned, inside the reserved area, and disjoint
        assert!(c0 % ALIGN == 0 && c1 % ALIGN == 0);
        assert!(c0 >= lo && c0 + SIZE <= lo + reserved && c1 >= lo && c1 + SIZE <= lo + reserved);
        assert!(c0 + SIZE <= c1 || c1 + SIZE <= c0);
        core::ptr::write_bytes(c0 as *mut u8, a, SIZE);
        let mut out = [0u8; SIZE];
        let all = |out: &[u8; SIZE], v: u8| { let mut i = 0; let mut ok = true; while i < SIZE { if out[i] != v { ok = false; } i += 1; } ok };
        mgmt.load(out.as_mut_ptr(), SIZE, ALIGN, data);
        assert!(all(&out, a));
        // first update, not yet published: a reader still sees the complete old value
        let w = mgmt.__internal_get_ptr_to_write_cell(SIZE, ALIGN, data);
        core::ptr::write_bytes(w, b, SIZE);
        mgmt.load(out.as_mut_ptr(), SIZE, ALIGN, data);
        assert!(all(&out, a));
        mgmt.__internal_update_write_cell();
        mgmt.load(out.as_mut_ptr(), SIZE, ALIGN, data);
        assert!(all(&out, b));
        // second update goes to the other cell; the published value stays intact until the publish
        let w2 = mgmt.__internal_get_ptr_to_write_cell(SIZE, ALIGN, data);
        assert!(w2 != w);
        core::ptr::write_bytes(w2, c, SIZE);
        mgmt.load(out.as_mut_ptr(), SIZE, ALIGN, data);
        assert!(all(&out, b));
        mgmt.__internal_update_write_cell();
        mgmt.load(out.as_mut_ptr(), SIZE, ALIGN, data);
        assert!(all(&out, c));
        assert!(mgmt.__internal_get_write_cell() == 3);
        assert!(UnrestrictedAtomicMgmt::__internal_get_unrestricted_atomic_size(SIZE, ALIGN) >= reserved + core::mem::size_of::<UnrestrictedAtomicMgmt>());
    }
    kani::cover!(true);
}

macro_rules! harness {
    ($name:ident, $s:expr, $a:expr, $u:expr) => {
        #[kani::proof]
        #[kani::unwind($u)]
        fn $name() { check::<$s, $a>(); }
    };
}
harness!(uatomic_12_8, 12, 8, 14);
harness!(uatomic_1_2, 1, 2, 4);
harness!(uatomic_8_8, 8, 8, 10);
harness!(uatomic_3_1, 3, 1, 5);
harness!(uatomic_24_16, 24, 16, 26);

/// typed API: UnrestrictedAtomic<T>::{new, load} + Producer::store; second producer refused while the first lives
#[kani::proof]
#[kani::unwind(6)]
fn uatomic_typed_store_load() {
    let v0: [u8; 3] = kani::any();
    let v1: [u8; 3] = kani::any();
    let s = UnrestrictedAtomic::<[u8; 3]>::new(v0);
    assert!(s.load() == v0);
    let p = s.acquire_producer().unwrap();
    assert!(s.acquire_producer().is_none());      // refused ...
    p.store(v1);                                  // ... without disturbing the first
    assert!(s.load() == v1);
    assert!(s.acquire_producer().is_none());
    drop(p);
    assert!(s.acquire_producer().is_some());
    kani::cover!(true);
}

#[kani::proof]
#[kani::unwind(6)]
fn uatomic_canary_must_fail() {
    let s = UnrestrictedAtomic::<u8>::new(1);
    let _p = s.acquire_producer().unwrap();
    assert!(s.acquire_producer().is_some());
}
