// Engine K harness module for iceoryx2-bb-system-types/src/path.rs: Path::normalize (the `normalize:` closure of the
// semantic_string! definition -- iterator adapters, out of Verus' reach) and the PartialEq built on it, which decides whether two
// roots are the SAME domain (named_concept.rs extract_name_from_path).  BOUNDED stand-in: all byte strings up to LEN bytes.
// Spec: the normalised path keeps the leading separator and, in order, exactly the entries that are neither empty nor ".",
// joined by ONE separator -- nothing else is dropped (a hidden directory or ".." is a different location).
use super::*;
extern crate alloc;
fn nofmt(_a: core::fmt::Arguments<'_>) -> alloc::string::String { alloc::string::String::new() }
fn nolog(_l: iceoryx2_log::LogLevel, _o: core::fmt::Arguments, _a: core::fmt::Arguments) {}

pub(crate) const LEN: usize = 3;
pub(crate) const LEN2: usize = 2;

/// byte-level statement of the rule; returns the length written to `out`
fn spec_normalize(v: &[u8], out: &mut [u8; LEN + 1]) -> usize {
    let mut n = 0;
    if v.len() > 0 && v[0] == PATH_SEPARATOR { out[0] = PATH_SEPARATOR; n = 1; }
    let mut emitted = false;
    let mut start = 0;
    let mut i = 0;
    while i <= v.len() {
        if i == v.len() || v[i] == PATH_SEPARATOR {
            let len = i - start;
            let dropped = len == 0 || (len == 1 && v[start] == b'.');
            if !dropped {
                if emitted { out[n] = PATH_SEPARATOR; n += 1; } else { emitted = true; }
                let mut k = 0;
                while k < len { out[n] = v[start + k]; n += 1; k += 1; }
            }
            start = i + 1;
        }
        i += 1;
    }
    n
}
fn any_bytes<const N: usize>() -> ([u8; N], usize) {
    let b: [u8; N] = kani::any();
    let n: usize = kani::any();
    kani::assume(n <= N);
    let mut i = 0;
    while i < N { kani::assume(b[i] != 0); i += 1; }
    (b, n)
}

#[kani::proof]
#[kani::unwind(6)]
#[kani::stub(alloc::fmt::format, nofmt)]
#[kani::stub(iceoryx2_log::__internal_print_log_msg, nolog)]
fn path_normalize_keeps_every_real_entry() {
    let (b, n) = any_bytes::<LEN>();
    let p = unsafe { Path::new_unchecked(&b[0..n]) };
    let r = p.normalize();
    let mut want = [0u8; LEN + 1];
    let m = spec_normalize(&b[0..n], &mut want);
    assert!(r.as_bytes().len() == m);
    let got = r.as_bytes();
    let mut i = 0;
    while i < m { assert!(got[i] == want[i]); i += 1; }
    kani::cover!(n == LEN && m == LEN);
    kani::cover!(n == LEN && m < n);
}

#[kani::proof]
#[kani::unwind(6)]
#[kani::stub(alloc::fmt::format, nofmt)]
#[kani::stub(iceoryx2_log::__internal_print_log_msg, nolog)]
fn path_equality_is_location_equality() {
    let (a, na) = any_bytes::<LEN2>();
    let (b, nb) = any_bytes::<LEN2>();
    let pa = unsafe { Path::new_unchecked(&a[0..na]) };
    let pb = unsafe { Path::new_unchecked(&b[0..nb]) };
    let mut wa = [0u8; LEN + 1];
    let mut wb = [0u8; LEN + 1];
    let ma = spec_normalize(&a[0..na], &mut wa);
    let mb = spec_normalize(&b[0..nb], &mut wb);
    let mut same = ma == mb;
    let mut i = 0;
    while i < LEN2 { if i < ma && i < mb && wa[i] != wb[i] { same = false; } i += 1; }
    assert!((pa == pb) == same);
    kani::cover!(same && na != nb);
    kani::cover!(!same && na == nb && na == LEN2);
}

#[kani::proof]
fn path_canary_must_fail() {
    let x: u8 = kani::any();
    assert!(x != 7);
}
