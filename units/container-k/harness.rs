// Engine K harness module for mpmc::container::Container on the compiled real code (FixedSizeContainer<u64, 2>):
// short symbolic scenarios around recover() / remove() / update_state() -- "every completed add or remove is noticed by the
// next refresh" and "once changes stop the refresh reports precisely the registered entries".  BOUNDED (scenario shaped).
use super::*;
extern crate alloc;
fn nofmt(_a: core::fmt::Arguments<'_>) -> alloc::string::String { alloc::string::String::new() }
fn nolog(_l: iceoryx2_log::LogLevel, _o: core::fmt::Arguments, _a: core::fmt::Arguments) {}

const CAP: usize = 2;
/// an EMPTY snapshot built without `vec![MaybeUninit::uninit(); n]` (that constructor alone exhausts CBMC's memory)
fn fresh_state(c: &FixedSizeContainer<u64, CAP>) -> ContainerState<u64> {
    let mut data = alloc::vec::Vec::new();
    data.push(MaybeUninit::uninit());
    data.push(MaybeUninit::uninit());
    let mut g = alloc::vec::Vec::new();
    g.push(0u64);
    g.push(0u64);
    ContainerState { container_id: c.container.container_id.value(), current_change_counter: 0, data, element_generation_counter: g }
}
fn entries(st: &ContainerState<u64>) -> [Option<u64>; CAP] { [st.get(0).copied(), st.get(1).copied()] }

/// a dead owner holds both slots; recovery removes a SYMBOLIC subset (predicate over the values); a reader whose snapshot
/// predates the recovery must notice the change and then see exactly the surviving entries
#[kani::proof]
#[kani::unwind(5)]
#[kani::stub(alloc::fmt::format, nofmt)]
#[kani::stub(iceoryx2_log::__internal_print_log_msg, nolog)]
fn container_recover_is_noticed() {
    let c = FixedSizeContainer::<u64, CAP>::new();
    let o1 = OwnerId::new(7).unwrap();
    let (a, b): (u64, u64) = (kani::any(), kani::any());
    kani::assume(a != b);
    unsafe {
        let h0 = c.add(a, o1).unwrap().1;
        let h1 = c.add(b, o1).unwrap().1;
        let mut st = fresh_state(&c);
        assert!(c.container.update_state(&mut st));
        assert!(entries(&st)[h0.index()] == Some(a) && entries(&st)[h1.index()] == Some(b));
        assert!(!c.container.update_state(&mut st));                    // nothing changed
        let (rm_a, rm_b): (bool, bool) = (kani::any(), kani::any());
        c.recover(o1, |v| if v == a { rm_a } else { rm_b }, ReleaseMode::Default);
        let changed = c.container.update_state(&mut st);
        if rm_a || rm_b { assert!(changed); }                 // a completed removal is noticed by the next refresh
        let e = entries(&st);
        assert!(e[h0.index()] == if rm_a { None } else { Some(a) });
        assert!(e[h1.index()] == if rm_b { None } else { Some(b) });
        assert!(!c.container.update_state(&mut st));
        kani::cover!(rm_a && !rm_b);
        kani::cover!(!rm_a && rm_b);
    }
}

/// a stale handle (its slot was re-used by another owner) is refused and the new owner's entry stays visible
#[kani::proof]
#[kani::unwind(5)]
#[kani::stub(alloc::fmt::format, nofmt)]
#[kani::stub(iceoryx2_log::__internal_print_log_msg, nolog)]
fn container_stale_remove_changes_nothing() {
    let c = FixedSizeContainer::<u64, CAP>::new();
    let (o1, o2) = (OwnerId::new(7).unwrap(), OwnerId::new(9).unwrap());
    let (a, b): (u64, u64) = (kani::any(), kani::any());
    unsafe {
        let ha = c.add(a, o1).unwrap().1;
        assert!(c.remove(ha, ReleaseMode::Default).is_ok());
        let hb = c.add(b, o2).unwrap().1;
        assert!(hb.index() == ha.index());
        assert!(c.remove(ha, ReleaseMode::Default).is_err());       // double remove with the old handle
        let mut st = fresh_state(&c);
        assert!(c.container.update_state(&mut st));
        assert!(entries(&st)[hb.index()] == Some(b));
        kani::cover!(true);
    }
}

#[kani::proof]
#[kani::unwind(5)]
#[kani::stub(alloc::fmt::format, nofmt)]
#[kani::stub(iceoryx2_log::__internal_print_log_msg, nolog)]
fn container_canary_must_fail() {
    let c = FixedSizeContainer::<u64, CAP>::new();
    let o1 = OwnerId::new(7).unwrap();
    unsafe {
        let _h = c.add(1, o1).unwrap().1;
        let mut st = fresh_state(&c);
        assert!(c.container.update_state(&mut st));
        assert!(entries(&st)[0].is_none() && entries(&st)[1].is_none());
    }
}
