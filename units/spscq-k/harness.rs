// Engine K harness module for spsc::queue::Queue<u64, CAP> on the compiled real code: push / pop / observers from an ARBITRARY
// well-formed state (symbolic cursors up to 2^63, symbolic cell contents) for capacities 1, 2, 3, 4 -- in particular for
// capacities that are NOT a power of two.
use super::*;
use iceoryx2_bb_concurrency::atomic::Ordering as O;

fn any_queue<const CAP: usize>() -> (Queue<u64, CAP>, u64, u64) {
    let q = Queue::<u64, CAP>::new();
    let mut i = 0;
    while i < CAP {
        unsafe { q.data[i].get().write(MaybeUninit::new(kani::any())) };
        i += 1;
    }
    let r: u64 = kani::any();
    let w: u64 = kani::any();
    kani::assume(r <= w && w - r <= CAP as u64 && w < u64::MAX / 2);
    q.read_position.store(r, O::Relaxed);
    q.write_position.store(w, O::Relaxed);
    (q, r, w)
}
fn cell<const CAP: usize>(q: &Queue<u64, CAP>, pos: u64) -> u64 {
    unsafe { *q.data[(pos % CAP as u64) as usize].get().as_ref().unwrap().as_ptr() }
}

fn check<const CAP: usize>() {
    let (q, r, w) = any_queue::<CAP>();
    let len = w - r;
    // one arbitrary logical position k of the view, before
    let k: u64 = kani::any();
    kani::assume(k < len || len == 0);
    let at_k = if len > 0 { cell(&q, r + k) } else { 0 };
    let head = if len > 0 { cell(&q, r) } else { 0 };
    assert!(q.len() as u64 == len && q.is_empty() == (len == 0) && q.is_full() == (len == CAP as u64));
    if kani::any() {
        let v: u64 = kani::any();
        let ok = unsafe { q.push(&v) };
        assert!(ok == (len < CAP as u64));
        assert!(q.read_position.load(O::Relaxed) == r);
        assert!(q.write_position.load(O::Relaxed) == if ok { w + 1 } else { w });
        if len > 0 { assert!(cell(&q, r + k) == at_k); }          // nothing stored is overwritten
        if ok { assert!(cell(&q, w) == v); }
        kani::cover!(ok && len == CAP as u64 - 1);
    } else {
        let x = unsafe { q.pop() };
        assert!(x.is_none() == (len == 0));
        if let Some(x) = x {
            assert!(x == head);
            assert!(q.read_position.load(O::Relaxed) == r + 1 && q.write_position.load(O::Relaxed) == w);
            if k >= 1 { assert!(cell(&q, r + k) == at_k); }
        }
        kani::cover!(x.is_some());
    }
}

#[kani::proof] #[kani::unwind(7)] fn spscq_cap1() { check::<1>(); }
#[kani::proof] #[kani::unwind(7)] fn spscq_cap2() { check::<2>(); }
#[kani::proof] #[kani::unwind(7)] fn spscq_cap3() { check::<3>(); }
#[kani::proof] #[kani::unwind(7)] fn spscq_cap4() { check::<4>(); }
#[kani::proof] #[kani::unwind(7)] fn spscq_cap5() { check::<5>(); }

#[kani::proof]
#[kani::unwind(7)]
fn spscq_canary_must_fail() {
    let (q, _r, _w) = any_queue::<2>();
    assert!(unsafe { q.push(&1) });
}
