// Engine K harness module for iceoryx2_bb_container::flatmap::FlatMap (heap flavour; the body is MetaFlatMap shared with the
// relocatable and fixed-size flavours) on the compiled real code: a SYMBOLIC SEQUENCE of STEPS operations (insert / remove /
// write through get_mut_ref) with keys from 0..KEYS on a map of capacity CAP, compared step by step with an array model
// (`Option<u8>` per key).  BOUNDED: capacity 2, 3 distinct keys; the fixed shape insert, insert, remove, get_mut_ref-write with
// symbolic keys and values (a hole in front of a stored entry).  (A free symbolic sequence of 3-4 steps did not finish in 25 min.)
use super::*;
extern crate alloc;
fn nofmt(_a: core::fmt::Arguments<'_>) -> alloc::string::String { alloc::string::String::new() }
fn nolog(_l: iceoryx2_log::LogLevel, _o: core::fmt::Arguments, _a: core::fmt::Arguments) {}

const CAP: usize = 2;
const KEYS: usize = 3;

fn count(model: &[Option<u8>; KEYS]) -> usize {
    let mut n = 0;
    let mut k = 0;
    while k < KEYS { if model[k].is_some() { n += 1; } k += 1; }
    n
}
fn agree(m: &FlatMap<u8, u8>, model: &[Option<u8>; KEYS]) -> bool {
    let mut k = 0;
    while k < KEYS {
        let key = k as u8;
        if m.contains(&key) != model[k].is_some() { return false; }
        if m.get(&key) != model[k] { return false; }
        if m.get_ref(&key).copied() != model[k] { return false; }
        k += 1;
    }
    let n = count(model);
    m.len() == n && m.is_empty() == (n == 0) && m.is_full() == (n == CAP)
}

/// fixed shape, symbolic keys / values: two inserts, one removal, then a write through get_mut_ref -- the entry reached through
/// get_mut_ref is the one stored under THIS key even when a slot in front of it has been vacated
#[kani::proof]
#[kani::unwind(6)]
#[kani::stub(alloc::fmt::format, nofmt)]
#[kani::stub(iceoryx2_log::__internal_print_log_msg, nolog)]
fn flatmap_hole_then_get_mut_ref() {
    let mut m = FlatMap::<u8, u8>::new(CAP);
    let mut model: [Option<u8>; KEYS] = [None; KEYS];
    let k1: u8 = kani::any(); let k2: u8 = kani::any(); let k3: u8 = kani::any(); let k4: u8 = kani::any();
    kani::assume((k1 as usize) < KEYS && (k2 as usize) < KEYS && (k3 as usize) < KEYS && (k4 as usize) < KEYS);
    let v1: u8 = kani::any(); let v2: u8 = kani::any(); let v4: u8 = kani::any();
    assert!(m.insert(k1, v1).is_ok()); model[k1 as usize] = Some(v1);
    let r = m.insert(k2, v2);
    if k2 == k1 { assert!(r == Err(FlatMapError::KeyAlreadyExists)); } else { assert!(r.is_ok()); model[k2 as usize] = Some(v2); }
    assert!(m.remove(&k3) == model[k3 as usize]); model[k3 as usize] = None;
    match m.get_mut_ref(&k4) {
        Some(r) => { assert!(model[k4 as usize] == Some(*r)); *r = v4; model[k4 as usize] = Some(v4); }
        None => assert!(model[k4 as usize].is_none()),
    }
    assert!(agree(&m, &model));
    kani::cover!(k3 == k1 && k4 == k2 && k2 != k1);
}

#[kani::proof]
#[kani::unwind(6)]
#[kani::stub(alloc::fmt::format, nofmt)]
#[kani::stub(iceoryx2_log::__internal_print_log_msg, nolog)]
fn flatmap_canary_must_fail() {
    let mut m = FlatMap::<u8, u8>::new(CAP);
    assert!(m.insert(1, 1).is_err());
}
