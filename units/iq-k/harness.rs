// Engine K harness module for spsc::index_queue::details::IndexQueue.
// Injected (scratch copy only) as the last item of `mod details`, so the private fields and `at()` are visible.
use super::*;
extern crate std;
use iceoryx2_bb_concurrency::atomic::Ordering as O;

type Snap = (u64, Option<u64>, u64, u64); // (logical index k, view[k], read, write)

pub(crate) fn pos<P: Pointer<UnsafeCell<u64>> + Debug>(q: &IndexQueue<P>) -> (u64, u64) {
    (q.read_position.load(O::Relaxed), q.write_position.load(O::Relaxed))
}

/// representation invariant
pub(crate) fn wf<P: Pointer<UnsafeCell<u64>> + Debug>(q: &IndexQueue<P>) -> bool {
    let (r, w) = pos(q);
    q.capacity >= 1 && r <= w && w - r <= q.capacity as u64
}
/// machine-range precondition (A-mach: cursors below 2^63)
pub(crate) fn mach<P: Pointer<UnsafeCell<u64>> + Debug>(q: &IndexQueue<P>) -> bool {
    pos(q).1 < u64::MAX / 2
}

/// pointwise view: element at logical index k (0 = oldest) or None when k >= len
pub(crate) fn view_at<P: Pointer<UnsafeCell<u64>> + Debug>(q: &IndexQueue<P>, k: u64) -> Option<u64> {
    let (r, w) = pos(q);
    if k < w - r { Some(unsafe { *q.at(r + k) }) } else { None }
}

pub(crate) fn snap<P: Pointer<UnsafeCell<u64>> + Debug>(q: &IndexQueue<P>, k: u64) -> Snap {
    let (r, w) = pos(q);
    (k, view_at(q, k), r, w)
}

/// push: ret == (len < cap); ret => view' == view.push(v); !ret => view' == view   (pointwise in k)
pub(crate) fn post_push<P: Pointer<UnsafeCell<u64>> + Debug>(q: &IndexQueue<P>, old: Snap, value: u64, ret: bool) -> bool {
    let (k, old_at_k, r0, w0) = old;
    let (r1, w1) = pos(q);
    let len0 = w0 - r0;
    let now = view_at(q, k);
    wf(q) && r1 == r0 && ret == (len0 < q.capacity as u64)
        && if ret {
            w1 == w0 + 1 && (if k < len0 { now == old_at_k } else if k == len0 { now == Some(value) } else { now.is_none() })
        } else {
            w1 == w0 && now == old_at_k
        }
}

/// pop: None <=> empty; Some(x) => x == view[0] && view' == view.skip(1)   (pointwise in k)
pub(crate) fn post_pop<P: Pointer<UnsafeCell<u64>> + Debug>(q: &IndexQueue<P>, old: Snap, old_next: Option<u64>, ret: Option<u64>) -> bool {
    // old = snapshot at index k, old_next = old view[k+1], head checked through k == 0 instance below
    let (k, old_at_k, r0, w0) = old;
    let (r1, w1) = pos(q);
    let len0 = w0 - r0;
    wf(q) && w1 == w0 && ret.is_none() == (len0 == 0)
        && if ret.is_some() {
            r1 == r0 + 1 && view_at(q, k) == old_next && (k != 0 || ret == old_at_k)
        } else {
            r1 == r0 && view_at(q, k) == old_at_k
        }
}

fn any_queue<const CAP: usize>() -> IndexQueue<OwningPointer<UnsafeCell<u64>>> {
    let q = IndexQueue::new(CAP);
    let mut i = 0;
    while i < CAP {
        unsafe { q.at(i as u64).write(kani::any()) };
        i += 1;
    }
    q.read_position.store(kani::any(), O::Relaxed);
    q.write_position.store(kani::any(), O::Relaxed);
    q
}

macro_rules! contract_harnesses {
    ($push:ident, $pop:ident, $cap:expr) => {
        #[kani::proof_for_contract(IndexQueue::push)]
        #[kani::unwind(7)]
        fn $push() {
            let q = any_queue::<$cap>();
            let r = unsafe { q.push(kani::any()) };
            kani::cover!(r);
            kani::cover!(!r);
        }
        #[kani::proof_for_contract(IndexQueue::pop)]
        #[kani::unwind(7)]
        fn $pop() {
            let q = any_queue::<$cap>();
            let r = unsafe { q.pop() };
            kani::cover!(r.is_some());
            kani::cover!(r.is_none());
        }
    };
}
contract_harnesses!(iq_push_contract_cap1, iq_pop_contract_cap1, 1);
contract_harnesses!(iq_push_contract_cap2, iq_pop_contract_cap2, 2);
contract_harnesses!(iq_push_contract_cap3, iq_pop_contract_cap3, 3);
contract_harnesses!(iq_push_contract_cap4, iq_pop_contract_cap4, 4);

/// new(): wf, empty
#[kani::proof]
#[kani::unwind(7)]
fn iq_new_empty() {
    let q = IndexQueue::new(3);
    assert!(wf(&q));
    assert!(view_at(&q, kani::any()).is_none());
    assert!(q.is_empty() && !q.is_full() && q.len() == 0);
}

/// is_empty / is_full / len agree with the view from every wf state
#[kani::proof]
#[kani::unwind(7)]
fn iq_observers_cap3() {
    let q = any_queue::<3>();
    kani::assume(wf(&q) && mach(&q));
    let (r, w) = pos(&q);
    assert!(q.len() as u64 == w - r);
    assert!(q.is_empty() == (w == r));
    assert!(q.is_full() == (w - r == 3));
}

// ---- C14: relocate-and-free-original.  Header + cells live in ONE heap block (as in a shm segment); the block is
// copied byte-for-byte to a new address, the original is freed, one arbitrary operation runs on the copy.
const RCAP: usize = 3;
type RQ = IndexQueue<RelocatablePointer<UnsafeCell<u64>>>;

unsafe fn build_and_move() -> (*mut u8, std::alloc::Layout) {
    let hdr = core::mem::size_of::<RQ>();
    let total = hdr + RQ::const_memory_size(RCAP);
    let layout = std::alloc::Layout::from_size_align(total, 8).unwrap();
    let a = std::alloc::alloc(layout);
    kani::assume(!a.is_null());
    (a as *mut RQ).write(RQ::new_uninit(RCAP));
    let alloc = BumpAllocator::new(NonNull::new_unchecked(a.add(hdr)), total - hdr);
    assert!((*(a as *mut RQ)).init(&alloc).is_ok());
    let qa = &*(a as *const RQ);
    let mut i = 0;
    while i < RCAP {
        qa.at(i as u64).write(kani::any());
        i += 1;
    }
    qa.read_position.store(kani::any(), O::Relaxed);
    qa.write_position.store(kani::any(), O::Relaxed);
    kani::assume(wf(qa) && mach(qa));
    let b = std::alloc::alloc(layout);
    kani::assume(!b.is_null());
    core::ptr::copy_nonoverlapping(a, b, total);
    std::alloc::dealloc(a, layout);
    (b, layout)
}

#[kani::proof]
#[kani::unwind(7)]
fn iq_reloc_push_after_move() {
    unsafe {
        let (b, layout) = build_and_move();
        let q = &*(b as *const RQ);
        assert!(wf(q));
        let old = snap(q, kani::any());
        let v: u64 = kani::any();
        let r = q.push(v);
        assert!(post_push(q, old, v, r));
        kani::cover!(r);
        std::alloc::dealloc(b, layout);
    }
}

#[kani::proof]
#[kani::unwind(7)]
fn iq_reloc_pop_after_move() {
    unsafe {
        let (b, layout) = build_and_move();
        let q = &*(b as *const RQ);
        let k: u64 = kani::any();
        let old = snap(q, k);
        let old_next = view_at(q, k.wrapping_add(1));
        kani::assume(k < u64::MAX);
        let r = q.pop();
        assert!(post_pop(q, old, old_next, r));
        kani::cover!(r.is_some());
        std::alloc::dealloc(b, layout);
    }
}

/// canary: must FAIL (proves the verifier ran and assertions are live)
#[kani::proof]
#[kani::unwind(7)]
fn iq_canary_must_fail() {
    let q = any_queue::<2>();
    kani::assume(wf(&q) && mach(&q));
    let r = unsafe { q.push(1) };
    assert!(r);
}
