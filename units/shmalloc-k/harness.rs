// Engine K harness module for iceoryx2_cal::shm_allocator::pool_allocator::PoolAllocator (C15, C14).
use super::*;
extern crate std;
extern crate alloc;
use iceoryx2_bb_elementary::bump_allocator::BumpAllocator;
fn nofmt(_a: core::fmt::Arguments<'_>) -> alloc::string::String { alloc::string::String::new() }
fn nolog(_l: iceoryx2_log::LogLevel, _o: core::fmt::Arguments, _a: core::fmt::Arguments) {}

#[repr(C, align(16))]
struct Mem { payload: [u8; 48], mgmt: [u8; 64] }

/// the allocator is initialised IN PLACE (it holds a self-relative pointer to its management memory: it must not be moved
/// by value after init -- only together with that memory, see shm_pool_reloc)
macro_rules! make {
    ($sut:ident, $mem:ident, $bucket:expr, $off:expr, $region:expr) => {
        let mut $sut = PoolAllocator::new_uninit(
            16,
            NonNull::new_unchecked(core::ptr::slice_from_raw_parts_mut($mem.payload.as_mut_ptr().add($off), $region)),
            &Config { bucket_layout: $bucket },
        );
        let bump = BumpAllocator::new(NonNull::new_unchecked($mem.mgmt.as_mut_ptr()), 64);
        assert!($sut.init(&bump).is_ok());
    };
}
fn any_layout(min_size: usize, max_size: usize, max_align_log: u8) -> Layout {
    let size: usize = kani::any();
    let al: u8 = kani::any();
    kani::assume(size >= min_size && size <= max_size && al <= max_align_log);
    Layout::from_size_align(size, 1usize << al).unwrap()
}

macro_rules! harness {
    ($name:ident, $unwind:expr, $body:block) => {
        #[kani::proof]
        #[kani::unwind($unwind)]
        #[kani::stub(alloc::fmt::format, nofmt)]
        #[kani::stub(iceoryx2_log::__internal_print_log_msg, nolog)]
        fn $name() { unsafe { $body } }
    };
}

/// resize_hint: the new segment configuration contains the old one and the request, keeps buckets a multiple of their
/// alignment (so that `payload_size` really holds `count` aligned buckets) and never shrinks anything.
harness!(shm_pool_resize_hint, 8, {
    let mut mem = Mem { payload: [0; 48], mgmt: [0; 64] };
    let cur = any_layout(12, 16, 3);
    kani::assume(cur.size() % cur.align() == 0);      // produced by a previous hint / chunk_layout padding
    make!(sut, mem, cur, 0, 48);
    let n = sut.number_of_buckets() as usize;
    kani::assume(n >= 1 && n <= 4);
    // optionally use up every bucket (then the hint must add at least one)
    let fill: bool = kani::any();
    if fill {
        let init = sut.assume_init();
        let mut k = 0;
        while k < n { assert!(init.allocate(cur).is_ok()); k += 1; }
    }
    let req = any_layout(1, 40, 4);
    let strategy = match kani::any::<u8>() % 3 { 0 => AllocationStrategy::BestFit, 1 => AllocationStrategy::PowerOfTwo, _ => AllocationStrategy::Static };
    let hint = sut.resize_hint(req, strategy);
    let nl = hint.config.bucket_layout;
    assert!(nl.size() >= cur.size() && nl.align() >= cur.align());
    assert!(nl.size() % nl.align() == 0);
    assert!(hint.payload_size % nl.size() == 0);
    let count = hint.payload_size / nl.size();
    assert!(count >= n);
    match strategy {
        AllocationStrategy::Static => { assert!(nl == cur && count == n); }
        _ => {
            assert!(nl.size() >= req.size() && nl.align() >= req.align());
            if fill { assert!(count > n); }
        }
    }
    kani::cover!(fill && nl.size() > cur.size() && nl.align() > cur.align());
});

/// allocate / deallocate: offsets are relative to the (aligned) segment start, inside the segment, aligned, disjoint, reusable
harness!(shm_pool_alloc_offsets, 8, {
    let mut mem = Mem { payload: [0; 48], mgmt: [0; 64] };
    let bucket = any_layout(10, 16, 3);
    kani::assume(bucket.size() % bucket.align() == 0);
    let start_off: usize = kani::any();
    kani::assume(start_off < 4);
    // possibly unaligned segment start inside the block
    make!(sut, mem, bucket, start_off, 40);
    kani::assume(sut.number_of_buckets() >= 2);
    let init = sut.assume_init();
    let a = init.allocate(bucket).unwrap();
    let b = init.allocate(bucket).unwrap();
    let base = mem.payload.as_ptr() as usize + start_off;
    let rel = sut.relative_start_address();
    let (oa, ob) = (a.offset(), b.offset());
    assert!(a.segment_id().value() == 0 && b.segment_id().value() == 0);
    assert!(rel + oa + bucket.size() <= 40 && rel + ob + bucket.size() <= 40);
    assert!((base + rel + oa) % bucket.align() == 0 && (base + rel + ob) % bucket.align() == 0);
    assert!(oa + bucket.size() <= ob || ob + bucket.size() <= oa);
    init.deallocate(a, bucket);
    let c = init.allocate(bucket).unwrap();
    assert!(c.offset() == oa);
    kani::cover!(start_off == 3);
});

/// C14: the allocator object (with its management memory) is copied byte-for-byte to a new block and the original freed;
/// offsets handed out before and after the move stay consistent (allocate / deallocate on the copy)
harness!(shm_pool_reloc, 8, {
    #[repr(C, align(16))]
    struct Blk { alloc: core::mem::MaybeUninit<PoolAllocator>, mgmt: [u8; 64] }
    let mut payload = [0u8; 48];
    let layout = std::alloc::Layout::new::<Blk>();
    let a = std::alloc::alloc(layout) as *mut Blk;
    kani::assume(!a.is_null());
    let bucket = Layout::from_size_align(8, 8).unwrap();
    (*a).alloc.write(PoolAllocator::new_uninit(16,
        NonNull::new_unchecked(core::ptr::slice_from_raw_parts_mut(payload.as_mut_ptr(), 48)), &Config { bucket_layout: bucket }));
    let bump = BumpAllocator::new(NonNull::new_unchecked((*a).mgmt.as_mut_ptr()), 64);
    assert!((*a).alloc.assume_init_mut().init(&bump).is_ok());
    let o1 = (*a).alloc.assume_init_ref().assume_init().allocate(bucket).unwrap();
    let b = std::alloc::alloc(layout) as *mut Blk;
    kani::assume(!b.is_null());
    core::ptr::copy_nonoverlapping(a as *const u8, b as *mut u8, layout.size());
    std::alloc::dealloc(a as *mut u8, layout);
    let sut = (*b).alloc.assume_init_ref();
    let init = sut.assume_init();
    let o2 = init.allocate(bucket).unwrap();
    assert!(o2.offset() != o1.offset());
    init.deallocate(o1, bucket);                 // freeing a chunk that was allocated before the move
    let o3 = init.allocate(bucket).unwrap();
    assert!(o3.offset() == o1.offset());
    kani::cover!(true);
    std::alloc::dealloc(b as *mut u8, layout);
});

harness!(shm_pool_canary_must_fail, 8, {
    let mut mem = Mem { payload: [0; 48], mgmt: [0; 64] };
    let bucket = Layout::from_size_align(8, 8).unwrap();
    make!(sut, mem, bucket, 0, 48);
    assert!(sut.assume_init().allocate(bucket).is_err());
});
