// Engine K harness module for iceoryx2_bb_container::slotmap::SlotMap (heap flavour) on the compiled real code:
// a SYMBOLIC SEQUENCE of STEPS operations (insert / insert_at / remove) on a map of capacity CAP, compared step by step
// with a plain array model (`Option<u8>` per key).  BOUNDED: capacity 2, 4 steps from new().
use super::*;
extern crate alloc;
fn nofmt(_a: core::fmt::Arguments<'_>) -> alloc::string::String { alloc::string::String::new() }
fn nolog(_l: iceoryx2_log::LogLevel, _o: core::fmt::Arguments, _a: core::fmt::Arguments) {}

const CAP: usize = 2;
const STEPS: usize = 4;

fn agree(m: &SlotMap<u8>, model: &[Option<u8>; CAP]) -> bool {
    let mut n = 0;
    let mut k = 0;
    while k < CAP {
        if m.contains(SlotMapKey::new(k)) != model[k].is_some() { return false; }
        if m.get(SlotMapKey::new(k)).copied() != model[k] { return false; }
        if model[k].is_some() { n += 1; }
        k += 1;
    }
    m.len() == n && m.is_empty() == (n == 0) && m.is_full() == (n == CAP)
}

#[kani::proof]
#[kani::unwind(6)]
#[kani::stub(alloc::fmt::format, nofmt)]
#[kani::stub(iceoryx2_log::__internal_print_log_msg, nolog)]
fn slotmap_sequence_cap2() {
    let mut m = SlotMap::<u8>::new(CAP);
    let mut model: [Option<u8>; CAP] = [None; CAP];
    let mut step = 0;
    while step < STEPS {
        let op: u8 = kani::any();
        let v: u8 = kani::any();
        let key: usize = kani::any();
        kani::assume(key < CAP);            // keys are valid slot numbers (key >= capacity: see slotmap_out_of_range_key)
        if op % 3 == 0 {
            // insert: a FREE key is handed out (never one that holds a value), or None iff the map is full
            let r = m.insert(v);
            let full = model[0].is_some() && model[1].is_some();
            assert!(r.is_none() == full);
            if let Some(k) = r {
                assert!(k.value() < CAP && model[k.value()].is_none());
                model[k.value()] = Some(v);
            }
        } else if op % 3 == 1 {
            // insert_at: stores / overwrites at exactly this key
            let r = m.insert_at(SlotMapKey::new(key), v);
            assert!(r);
            model[key] = Some(v);
        } else {
            let r = m.remove(SlotMapKey::new(key));
            assert!(r == model[key]);
            model[key] = None;
        }
        assert!(agree(&m, &model));
        // the advertised next free key really is free
        if let Some(k) = m.next_free_key() { assert!(k.value() < CAP && model[k.value()].is_none()); }
        step += 1;
    }
    kani::cover!(model[0].is_some() && model[1].is_some());
}

/// a key equal to / beyond the capacity is rejected (false / None), not a panic
#[kani::proof]
#[kani::unwind(6)]
#[kani::stub(alloc::fmt::format, nofmt)]
#[kani::stub(iceoryx2_log::__internal_print_log_msg, nolog)]
fn slotmap_out_of_range_key() {
    let mut m = SlotMap::<u8>::new(CAP);
    let key: usize = kani::any();
    kani::assume(key >= CAP && key <= CAP + 1);
    if kani::any() {
        assert!(!m.insert_at(SlotMapKey::new(key), 1));
    } else {
        assert!(m.remove(SlotMapKey::new(key)).is_none());
    }
    assert!(m.len() == 0);
    kani::cover!(key == CAP);
}

#[kani::proof]
#[kani::unwind(6)]
#[kani::stub(alloc::fmt::format, nofmt)]
#[kani::stub(iceoryx2_log::__internal_print_log_msg, nolog)]
fn slotmap_canary_must_fail() {
    let mut m = SlotMap::<u8>::new(CAP);
    assert!(m.insert(1).is_none());
}
