// Engine K harness module for system_types::{Path, FilePath} (C19 "accepted exactly when they satisfy the documented rules ...
// every accepted name round-trips unchanged") on the compiled real code: the validators are closures inside the
// semantic_string! invocation, which the source-level engine cannot extract.  BOUNDED: all byte strings of length 0..=3 over
// the full byte range (the property's own exhaustive bound); the rule is written here from the documentation, not from the
// match arms.
use super::*;
use crate::path::Path;

fn nofmt(_: core::fmt::Arguments<'_>) -> alloc::string::String { alloc::string::String::new() }
fn nolog(_l: iceoryx2_log::LogLevel, _o: core::fmt::Arguments, _a: core::fmt::Arguments) {}

/// characters no path may contain on any platform: NUL, control characters, and the wildcard / redirection characters
fn forbidden(c: u8) -> bool {
    c <= 31 || c == b'<' || c == b'>' || c == b'"' || c == b'|' || c == b'?' || c == b'*'
}
/// not 7-bit ASCII: the underlying string type stores ASCII only
fn not_ascii(c: u8) -> bool { c >= 128 }

fn any_bytes() -> ([u8; 3], usize) {
    let b: [u8; 3] = kani::any();
    let n: usize = kani::any();
    kani::assume(n <= 3);
    (b, n)
}
fn any_bad(b: &[u8; 3], n: usize) -> bool {
    (n > 0 && (forbidden(b[0]) || not_ascii(b[0]))) || (n > 1 && (forbidden(b[1]) || not_ascii(b[1]))) || (n > 2 && (forbidden(b[2]) || not_ascii(b[2])))
}
fn same(a: &[u8], b: &[u8; 3], n: usize) -> bool {
    a.len() == n && (n < 1 || a[0] == b[0]) && (n < 2 || a[1] == b[1]) && (n < 3 || a[2] == b[2])
}

#[kani::proof]
#[kani::unwind(6)]
#[kani::stub(alloc::fmt::format, nofmt)]
#[kani::stub(iceoryx2_log::__internal_print_log_msg, nolog)]
fn path_accepts_exactly_the_documented_rule() {
    let (b, n) = any_bytes();
    let r = Path::new(&b[..n]);
    // a path may be empty and may contain separators and dots; only the forbidden characters make it invalid
    assert!(r.is_ok() == !any_bad(&b, n));
    if let Ok(p) = r {
        assert!(same(p.as_bytes(), &b, n));      // round trip
        kani::cover!(n == 3);
    }
}

#[kani::proof]
#[kani::unwind(6)]
#[kani::stub(alloc::fmt::format, nofmt)]
#[kani::stub(iceoryx2_log::__internal_print_log_msg, nolog)]
fn file_path_accepts_exactly_the_documented_rule() {
    let (b, n) = any_bytes();
    let r = FilePath::new(&b[..n]);
    let sep = iceoryx2_pal_configuration::PATH_SEPARATOR;
    // a file path names a FILE: not empty, not "." or "..", does not end with a separator, and its last component is not
    // "." or ".."
    let dot = b'.';
    let names_no_file = n == 0
        || (n == 1 && b[0] == dot)
        || (n == 2 && b[0] == dot && b[1] == dot)
        || b[n - 1] == sep
        || (n >= 2 && b[n - 2] == sep && b[n - 1] == dot)
        || (n >= 3 && b[n - 3] == sep && b[n - 2] == dot && b[n - 1] == dot);
    assert!(r.is_ok() == !(any_bad(&b, n) || names_no_file));
    if let Ok(p) = r {
        assert!(same(p.as_bytes(), &b, n));
        kani::cover!(n == 3);
    }
}

#[kani::proof]
#[kani::unwind(6)]
#[kani::stub(alloc::fmt::format, nofmt)]
#[kani::stub(iceoryx2_log::__internal_print_log_msg, nolog)]
fn names_canary_must_fail() {
    let (b, n) = any_bytes();
    assert!(Path::new(&b[..n]).is_ok());
}
