// Engine K harness module for iceoryx2_bb_elementary::relocatable_pointer::RelocatablePointer (C14).
use super::*;
extern crate std;

#[repr(C)]
struct Block { ptr: RelocatablePointer<u64>, pad: [u8; 8], payload: [u64; 4] }

/// init(p) then as_ptr() == p, for a target anywhere in the same block (before or after the pointer object);
/// the stored distance is (target - self), i.e. relative: no absolute address is kept.
#[kani::proof]
fn relocptr_init_as_ptr() {
    let mut b = Block { ptr: unsafe { RelocatablePointer::new_uninit() }, pad: [0; 8], payload: [1, 2, 3, 4] };
    let k: usize = kani::any();
    kani::assume(k < 4);
    let target = unsafe { b.payload.as_mut_ptr().add(k) };
    unsafe { b.ptr.init(NonNull::new_unchecked(target as *mut u8)) };
    assert!(b.ptr.as_ptr() == target as *const u64);
    assert!(b.ptr.as_mut_ptr() == target);
    assert!(b.ptr.distance.load(Ordering::Relaxed) == (target as isize) - (&b.ptr as *const _ as isize));
    assert!(unsafe { *b.ptr.as_ptr() } == (k as u64) + 1);
    assert!(b.ptr.is_initialized());
}

/// relocate-and-free-original: the block (pointer object + payload) is copied byte-for-byte to a new heap block, the
/// original is FREED; the copy's pointer resolves into the copy (a kept absolute address would dereference freed memory).
#[kani::proof]
fn relocptr_survives_move() {
    unsafe {
        let layout = std::alloc::Layout::new::<Block>();
        let a = std::alloc::alloc(layout) as *mut Block;
        kani::assume(!a.is_null());
        a.write(Block { ptr: RelocatablePointer::new_uninit(), pad: [0; 8], payload: [kani::any(), kani::any(), kani::any(), kani::any()] });
        let k: usize = kani::any();
        kani::assume(k < 4);
        (*a).ptr.init(NonNull::new_unchecked((*a).payload.as_mut_ptr().add(k) as *mut u8));
        let expect = (*a).payload[k];
        let b = std::alloc::alloc(layout) as *mut Block;
        kani::assume(!b.is_null());
        core::ptr::copy_nonoverlapping(a as *const u8, b as *mut u8, layout.size());
        std::alloc::dealloc(a as *mut u8, layout);
        let p = (*b).ptr.as_ptr();
        assert!(p == (*b).payload.as_ptr().add(k));
        assert!(*p == expect);
        // clone keeps the DISTANCE (documented: a clone is only valid at the same relative position)
        kani::cover!(k == 3);
        std::alloc::dealloc(b as *mut u8, layout);
    }
}

#[kani::proof]
fn relocptr_canary_must_fail() {
    let b = Block { ptr: unsafe { RelocatablePointer::new_uninit() }, pad: [0; 8], payload: [1, 2, 3, 4] };
    assert!(b.ptr.is_initialized());
}
