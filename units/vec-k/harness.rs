// Engine K harness module for the `Vector` trait (iceoryx2-bb-container/src/vector/mod.rs) on StaticVec<Tracked, CAP>:
// every operation from an ARBITRARY state (symbolic length and element payloads) against a reference model, with
// drop accounting: every element is dropped exactly once (a second drop of the same element trips an assertion).
use super::*;
extern crate alloc;
use crate::vector::static_vec::StaticVec;
fn nofmt(_a: core::fmt::Arguments<'_>) -> alloc::string::String { alloc::string::String::new() }
fn nolog(_l: iceoryx2_log::LogLevel, _o: core::fmt::Arguments, _a: core::fmt::Arguments) {}

pub(crate) const CAP: usize = 3;
const IDS: usize = 8;
static mut DROPS: [u8; IDS] = [0; IDS];

/// element with identity: dropping the same identity twice is an error
#[derive(Debug)]
pub(crate) struct Tracked { id: u8, v: u8 }
impl Drop for Tracked {
    fn drop(&mut self) {
        unsafe {
            assert!(DROPS[self.id as usize] == 0);     // never dropped twice
            DROPS[self.id as usize] = 1;
        }
    }
}
fn dropped(id: usize) -> bool { unsafe { DROPS[id] == 1 } }
fn drops_total() -> usize { let mut n = 0; let mut i = 0; while i < IDS { if dropped(i) { n += 1; } i += 1; } n }

type V = StaticVec<Tracked, CAP>;
/// model: ids and payloads in order
#[derive(Clone, Copy)]
struct M { id: [u8; CAP], v: [u8; CAP], n: usize }

/// arbitrary state: n <= CAP elements with identities 0..n-1 and symbolic payloads
fn any_state() -> (V, M) {
    let mut s = V::new();
    let n: usize = kani::any();
    kani::assume(n <= CAP);
    let mut m = M { id: [0; CAP], v: [0; CAP], n };
    let mut i = 0;
    while i < CAP {
        if i < n {
            let v: u8 = kani::any();
            unsafe { s.push_unchecked(Tracked { id: i as u8, v }) };
            m.id[i] = i as u8; m.v[i] = v;
        }
        i += 1;
    }
    (s, m)
}
fn same(s: &V, m: &M) -> bool {
    if s.len() != m.n { return false; }
    let sl = s.as_slice();
    let mut i = 0;
    while i < CAP {
        if i < m.n && (sl[i].id != m.id[i] || sl[i].v != m.v[i]) { return false; }
        i += 1;
    }
    true
}

macro_rules! harness {
    ($name:ident, $body:block) => {
        #[kani::proof]
        #[kani::unwind(10)]
        #[kani::stub(alloc::fmt::format, nofmt)]
        #[kani::stub(iceoryx2_log::__internal_print_log_msg, nolog)]
        fn $name() $body
    };
}

harness!(vec_push_pop, {
    let (mut s, m) = any_state();
    if kani::any() {
        let v: u8 = kani::any();
        let r = s.push(Tracked { id: 7, v });
        if m.n == CAP {
            // exceeding the capacity fails with the documented error and changes nothing; the rejected element is dropped
            assert!(r == Err(VectorModificationError::InsertWouldExceedCapacity));
            assert!(same(&s, &m) && dropped(7) && drops_total() == 1);
        } else {
            let mut e = m; e.id[m.n] = 7; e.v[m.n] = v; e.n += 1;
            assert!(r.is_ok() && same(&s, &e) && drops_total() == 0);
            kani::cover!(m.n == 2);
        }
    } else {
        let r = s.pop();
        if m.n == 0 { assert!(r.is_none() && same(&s, &m)); }
        else {
            let mut e = m; e.n -= 1;
            let x = r.unwrap();
            assert!(x.id == m.id[m.n - 1] && x.v == m.v[m.n - 1] && same(&s, &e));
            assert!(drops_total() == 0);           // moved out, not dropped
            core::mem::forget(x);
        }
    }
    // container drop: every remaining element dropped exactly once
    let remaining = s.len();
    let before = drops_total();
    drop(s);
    assert!(drops_total() == before + remaining);
});

harness!(vec_insert, {
    let (mut s, m) = any_state();
    let idx: usize = kani::any();
    kani::assume(idx <= CAP + 1);
    let v: u8 = kani::any();
    let r = s.insert(idx, Tracked { id: 7, v });
    if m.n == CAP {
        assert!(r == Err(VectorModificationError::InsertWouldExceedCapacity) && same(&s, &m));
    } else if idx > m.n {
        assert!(r == Err(VectorModificationError::OutOfBounds) && same(&s, &m));
    } else {
        let mut e = M { id: [0; CAP], v: [0; CAP], n: m.n + 1 };
        let mut i = 0;
        while i < CAP {
            if i < idx { e.id[i] = m.id[i]; e.v[i] = m.v[i]; }
            else if i == idx { e.id[i] = 7; e.v[i] = v; }
            else if i < e.n { e.id[i] = m.id[i - 1]; e.v[i] = m.v[i - 1]; }
            i += 1;
        }
        assert!(r.is_ok() && same(&s, &e) && drops_total() == 0);
        kani::cover!(idx == 0 && m.n == 2);
    }
    let remaining = s.len();
    let before = drops_total();
    drop(s);
    assert!(drops_total() == before + remaining);
});

harness!(vec_remove, {
    let (mut s, m) = any_state();
    let idx: usize = kani::any();
    kani::assume(idx <= CAP + 1);
    let r = s.remove(idx);
    if idx >= m.n { assert!(r.is_none() && same(&s, &m)); }
    else {
        let x = r.unwrap();
        let mut e = M { id: [0; CAP], v: [0; CAP], n: m.n - 1 };
        let mut i = 0;
        while i < CAP {
            if i < idx { e.id[i] = m.id[i]; e.v[i] = m.v[i]; } else if i < e.n { e.id[i] = m.id[i + 1]; e.v[i] = m.v[i + 1]; }
            i += 1;
        }
        assert!(x.id == m.id[idx] && x.v == m.v[idx] && same(&s, &e) && drops_total() == 0);
        kani::cover!(idx == 0 && m.n == 3);
        core::mem::forget(x);
    }
    let remaining = s.len();
    let before = drops_total();
    drop(s);
    assert!(drops_total() == before + remaining);
});

harness!(vec_truncate_clear_resize, {
    let (mut s, m) = any_state();
    let op: u8 = kani::any();
    let k: usize = kani::any();
    kani::assume(k <= CAP + 1);
    if op == 0 {
        s.truncate(k);
        if k >= m.n { assert!(same(&s, &m) && drops_total() == 0); }
        else {
            let mut e = m; e.n = k;
            assert!(same(&s, &e) && drops_total() == m.n - k);
            // exactly the cut-off elements were dropped
            let mut i = 0;
            while i < CAP { if i < m.n { assert!(dropped(i) == (i >= k)); } i += 1; }
        }
    } else if op == 1 {
        s.clear();
        assert!(s.len() == 0 && s.is_empty() && drops_total() == m.n);
    } else {
        // the constructor callback is COUNTED: exactly one call per new element (a surplus element would sit beyond len and
        // never be dropped -- invisible to the drop counters)
        let mut created = 0usize;
        let r = s.resize_with(k, || { created += 1; Tracked { id: 7, v: 9 } });
        assert!(created == if k <= CAP && k > m.n { k - m.n } else { 0 });
        if k > CAP { assert!(r == Err(VectorModificationError::InsertWouldExceedCapacity) && same(&s, &m)); }
        else if k <= m.n { let mut e = m; e.n = k; assert!(r.is_ok() && same(&s, &e) && drops_total() == m.n - k); }
        else {
            // at most one new element in this harness (ids must stay distinct): k == m.n + 1
            kani::assume(k == m.n + 1);
            let mut e = m; e.id[m.n] = 7; e.v[m.n] = 9; e.n = k;
            assert!(r.is_ok() && same(&s, &e) && drops_total() == 0);
        }
    }
    let remaining = s.len();
    let before = drops_total();
    drop(s);
    assert!(drops_total() == before + remaining);
});

/// extend_from_slice on a Clone element type (u8)
harness!(vec_extend_from_slice, {
    let mut s = StaticVec::<u8, CAP>::new();
    let n: usize = kani::any();
    kani::assume(n <= CAP);
    let mut mb = [0u8; CAP];
    let mut i = 0;
    while i < CAP { if i < n { let v: u8 = kani::any(); unsafe { s.push_unchecked(v) }; mb[i] = v; } i += 1; }
    let other: [u8; 2] = kani::any();
    let on: usize = kani::any();
    kani::assume(on <= 2);
    let r = s.extend_from_slice(&other[..on]);
    if n + on > CAP {
        assert!(r == Err(VectorModificationError::InsertWouldExceedCapacity) && s.len() == n);
    } else {
        assert!(r.is_ok() && s.len() == n + on);
        let mut i = 0;
        while i < on { assert!(s.as_slice()[n + i] == other[i]); i += 1; }
    }
    let mut i = 0;
    while i < CAP { if i < n { assert!(s.as_slice()[i] == mb[i]); } i += 1; }
    kani::cover!(on == 2 && n == 1);
});

harness!(vec_canary_must_fail, {
    let (mut s, _m) = any_state();
    assert!(s.push(Tracked { id: 7, v: 0 }).is_ok());
    core::mem::forget(s);
});
