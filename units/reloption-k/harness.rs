// Engine K harness module for iceoryx2_bb_container::relocatable_option::RelocatableOption<T> (C16 "return exactly what the
// reference container would"): every operation agrees with core::option::Option on ALL values of Option<u8> -- the harnesses
// are loop-free over fully symbolic inputs, i.e. complete for T = u8, not bounded.
use super::*;
extern crate alloc;
fn nofmt(_a: core::fmt::Arguments<'_>) -> alloc::string::String { alloc::string::String::new() }
fn nolog(_l: iceoryx2_log::LogLevel, _o: core::fmt::Arguments, _a: core::fmt::Arguments) {}

fn any_pair() -> (Option<u8>, RelocatableOption<u8>) {
    let o: Option<u8> = if kani::any() { Some(kani::any()) } else { None };
    (o, RelocatableOption::from(o))
}

#[kani::proof]
#[kani::stub(alloc::fmt::format, nofmt)]
#[kani::stub(iceoryx2_log::__internal_print_log_msg, nolog)]
fn reloption_observers_and_conversions() {
    let (o, r) = any_pair();
    assert!(r.is_some() == o.is_some());
    assert!(r.is_none() == o.is_none());
    assert!(r.to_option() == o);
    assert!(Option::<u8>::from(r) == o);
    assert!(r.as_option_ref().copied() == o);
    assert!(r.as_ref().to_option().copied() == o);
    let alt: u8 = kani::any();
    assert!(r.unwrap_or(alt) == o.unwrap_or(alt));
    assert!(r.unwrap_or_default() == o.unwrap_or_default());
    assert!(r.unwrap_or_else(|| alt) == o.unwrap_or_else(|| alt));
    assert!(r.map(|v| v.wrapping_add(3)).to_option() == o.map(|v| v.wrapping_add(3)));
    let mut seen = None;
    let back = r.inspect(|v| seen = Some(*v));
    assert!(seen == o && back == r);
    if o.is_some() { assert!(r.unwrap() == o.unwrap()); assert!(r.expect("x") == o.unwrap()); assert!(unsafe { r.unwrap_unchecked() } == o.unwrap()); }
    kani::cover!(o.is_some());
    kani::cover!(o.is_none());
}

#[kani::proof]
#[kani::stub(alloc::fmt::format, nofmt)]
#[kani::stub(iceoryx2_log::__internal_print_log_msg, nolog)]
fn reloption_mutators() {
    let (o, r) = any_pair();
    let v: u8 = kani::any();
    // replace: the old content comes back, the new value is stored
    let (mut o1, mut r1) = (o, r);
    assert!(r1.replace(v).to_option() == o1.replace(v));
    assert!(r1.to_option() == o1 && o1 == Some(v));
    // take: the content comes back, nothing is left
    let (mut o2, mut r2) = (o, r);
    assert!(r2.take().to_option() == o2.take());
    assert!(r2.is_none() && o2.is_none());
    // take_if: taken exactly when there is a value and the predicate (which may modify it) says so
    let (mut o3, mut r3) = (o, r);
    let limit: u8 = kani::any();
    let a = r3.take_if(|x| { *x = x.wrapping_add(1); *x > limit }).to_option();
    let b = o3.take_if(|x| { *x = x.wrapping_add(1); *x > limit });
    assert!(a == b && r3.to_option() == o3);
    // as_mut / as_option_mut: a write goes to the stored value
    let (mut o4, mut r4) = (o, r);
    if let RelocatableOption::Some(x) = r4.as_mut() { *x = v; }
    if let Some(x) = o4.as_mut() { *x = v; }
    assert!(r4.to_option() == o4);
    let (mut o5, mut r5) = (o, r);
    if let Some(x) = r5.as_option_mut() { *x = v; }
    if let Some(x) = o5.as_mut() { *x = v; }
    assert!(r5.to_option() == o5);
    kani::cover!(o.is_some() && a.is_some());
    kani::cover!(o.is_some() && a.is_none());
}

#[kani::proof]
fn reloption_canary_must_fail() {
    let (o, r) = any_pair();
    assert!(r.is_some() != o.is_some());
}
