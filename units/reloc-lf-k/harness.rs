// Engine K harness module (C14): relocate-and-free-original for the relocatable structures of iceoryx2-bb-lock-free.
// Each structure + its payload is built in ONE heap block exactly as a shared-memory segment would hold it (header via
// new_uninit, payload via init(&BumpAllocator) right behind the header), brought into a state by a few symbolic operations,
// copied byte-for-byte to a fresh block, the ORIGINAL IS FREED, and the same observable behaviour is required of the copy.
// Any absolute address left in the structure dereferences freed memory and fails Kani's pointer checks.
extern crate std;
extern crate alloc;
use core::ptr::NonNull;
use iceoryx2_bb_elementary::bump_allocator::BumpAllocator;
use iceoryx2_bb_elementary_traits::relocatable_container::RelocatableContainer;
fn nofmt(_a: core::fmt::Arguments<'_>) -> alloc::string::String { alloc::string::String::new() }
fn nolog(_l: iceoryx2_log::LogLevel, _o: core::fmt::Arguments, _a: core::fmt::Arguments) {}

const BLOCK: usize = 256;
fn layout() -> std::alloc::Layout { std::alloc::Layout::from_size_align(BLOCK, 16).unwrap() }

/// header at offset 0, payload allocated by the real BumpAllocator behind it
unsafe fn build<T: RelocatableContainer>(cap: usize) -> *mut u8 {
    let a = std::alloc::alloc(layout());
    kani::assume(!a.is_null());
    let hdr = core::mem::size_of::<T>();
    assert!(hdr + T::memory_size(cap) <= BLOCK);
    (a as *mut T).write(T::new_uninit(cap));
    let bump = BumpAllocator::new(NonNull::new_unchecked(a.add(hdr)), BLOCK - hdr);
    assert!((*(a as *mut T)).init(&bump).is_ok());
    a
}
/// byte copy to a fresh block, free the original
unsafe fn relocate(a: *mut u8) -> *mut u8 {
    let b = std::alloc::alloc(layout());
    kani::assume(!b.is_null());
    core::ptr::copy_nonoverlapping(a, b, BLOCK);
    std::alloc::dealloc(a, layout());
    b
}

macro_rules! harness {
    ($name:ident, $unwind:expr, $body:block) => {
        #[kani::proof]
        #[kani::unwind($unwind)]
        #[kani::stub(alloc::fmt::format, nofmt)]
        #[kani::stub(iceoryx2_log::__internal_print_log_msg, nolog)]
        fn $name() { unsafe { $body } }
    };
}

harness!(reloc_soiq, 8, {
    use crate::spsc::safely_overflowing_index_queue::RelocatableSafelyOverflowingIndexQueue as Q;
    let a = build::<Q>(2);
    let q = &*(a as *const Q);
    let (v1, v2, v3): (u64, u64, u64) = (kani::any(), kani::any(), kani::any());
    let n: u8 = kani::any();
    kani::assume(n <= 3);
    if n >= 1 { assert!(q.push(v1).is_none()); }
    if n >= 2 { assert!(q.push(v2).is_none()); }
    if n >= 3 { assert!(q.push(v3) == Some(v1)); }
    let b = relocate(a);
    let q = &*(b as *const Q);
    assert!(q.len() == if n >= 2 { 2 } else { n as usize });
    let w: u64 = kani::any();
    let r = q.push(w);
    // overflow on the COPY hands back the oldest element stored before the move
    if n == 2 { assert!(r == Some(v1)); } else if n == 3 { assert!(r == Some(v2)); } else { assert!(r.is_none()); }
    let first = q.pop();
    assert!(first == Some(if n == 0 { w } else if n == 1 { v1 } else if n == 2 { v2 } else { v3 }));
    kani::cover!(n == 3);
    std::alloc::dealloc(b, layout());
});

harness!(reloc_bitset, 12, {
    use crate::mpmc::bit_set::RelocatableBitSet as B;
    let a = build::<B>(10);
    let s = &*(a as *const B);
    let (i, j): (usize, usize) = (kani::any(), kani::any());
    kani::assume(i < 10 && j < 10 && i != j);
    assert!(s.set(i));
    let b = relocate(a);
    let s = &*(b as *const B);
    assert!(!s.set(i));          // already set before the move
    assert!(s.set(j));
    let mut seen_i = false; let mut seen_j = false; let mut n = 0;
    s.reset_all(|id| { if id == i { seen_i = true; } if id == j { seen_j = true; } n += 1; });
    assert!(seen_i && seen_j && n == 2);
    assert!(s.reset_next().is_none());
    kani::cover!(i == 9 && j == 0);
    std::alloc::dealloc(b, layout());
});

harness!(reloc_ruis, 8, {
    use crate::mpmc::robust_unique_index_set::{OwnerId, RobustUniqueIndexSet as S};
    use crate::mpmc::unique_index_set_enums::ReleaseMode;
    let a = build::<S>(2);
    let s = &*(a as *const S);
    let o1 = OwnerId::new(11).unwrap();
    let o2 = OwnerId::new(22).unwrap();
    let i1 = s.acquire(o1).unwrap();
    let b = relocate(a);
    let s = &*(b as *const S);
    assert!(s.borrowed_indices() == 1);
    let i2 = s.acquire(o2).unwrap();
    assert!(i1 != i2 && i2 < 2);
    assert!(s.acquire(o2).is_err());                         // both taken
    assert!(s.release(i1, o2, ReleaseMode::Default).is_err());   // not the owner
    assert!(s.release(i1, o1, ReleaseMode::Default).is_ok());
    assert!(s.borrowed_indices() == 1);
    kani::cover!(true);
    std::alloc::dealloc(b, layout());
});

harness!(reloc_canary_must_fail, 8, {
    use crate::spsc::index_queue::RelocatableIndexQueue as Q;
    let a = build::<Q>(2);
    let b = relocate(a);
    let q = &*(b as *const Q);
    assert!(q.pop().is_some());
    std::alloc::dealloc(b, layout());
});
