// Engine K harness module for iceoryx2_bb_memory::pool_allocator::PoolAllocator (real pointer code).
use super::*;
extern crate alloc;
fn nofmt(_a: core::fmt::Arguments<'_>) -> alloc::string::String { alloc::string::String::new() }
fn nolog(_l: iceoryx2_log::LogLevel, _o: core::fmt::Arguments, _a: core::fmt::Arguments) {}

#[repr(C, align(16))]
struct Mem { payload: [u8; 64], mgmt: [u8; 64] }

const REGION_MAX: usize = 48;

/// new_uninit at a symbolic, possibly unaligned start inside the block; init; two allocations of a symbolic request
/// that fits the bucket; one deallocate + re-allocate.  Checks: in-bounds, aligned, >= requested size, disjoint,
/// freed bucket reusable, documented errors.
fn check(bsize: usize, balign: usize) {
    let mut mem = Mem { payload: [0; 64], mgmt: [0; 64] };
    let bucket = Layout::from_size_align(bsize, balign).unwrap();
    let start_off: usize = kani::any();
    kani::assume(start_off < 4);
    let base = unsafe { mem.payload.as_mut_ptr().add(start_off) };
    // symbolic segment size: the bucket count must be right for EVERY size, not only for multiples of the bucket size
    let region: usize = kani::any();
    kani::assume(region >= 32 && region <= REGION_MAX);
    let mut sut = unsafe { PoolAllocator::new_uninit(bucket, NonNull::new_unchecked(base), region) };
    let bump = BumpAllocator::new(unsafe { NonNull::new_unchecked(mem.mgmt.as_mut_ptr()) }, 64);
    assert!(unsafe { sut.init(&bump) }.is_ok());
    let n = sut.number_of_buckets() as usize;
    kani::assume(n >= 2);
    // a symbolic request
    let rsize: usize = kani::any();
    let ralign_log: u8 = kani::any();
    kani::assume(rsize >= 1 && rsize <= 32 && ralign_log <= 5);
    let req = Layout::from_size_align(rsize, 1usize << ralign_log).unwrap();
    let lo = base as usize;
    let ra = sut.allocate(req);
    if rsize > bsize {
        assert!(ra == Err(AllocationError::SizeTooLarge));
        return;
    }
    if req.align() > balign {
        assert!(ra == Err(AllocationError::AlignmentFailure));
        return;
    }
    let a = ra.unwrap();
    let b = sut.allocate(req).unwrap();
    let (pa, pb) = (a.as_ptr() as usize, b.as_ptr() as usize);
    assert!(pa >= lo && pa + bsize <= lo + region);
    assert!(pb >= lo && pb + bsize <= lo + region);
    assert!(pa % req.align() == 0);
    assert!(pb % req.align() == 0);
    assert!(pa + bsize <= pb || pb + bsize <= pa);
    // exhaust, then OutOfMemory
    let mut k = 2;
    let mut last = b;
    while k < n {
        // EVERY bucket handed out lies inside the segment and is aligned (the last one is where a wrong count shows)
        let q = sut.allocate(req).unwrap();
        let p = q.as_ptr() as usize;
        assert!(p >= lo && p + bsize <= lo + region && p % req.align() == 0);
        last = q;
        k += 1;
    }
    assert!(sut.allocate(req) == Err(AllocationError::OutOfMemory));
    // freed memory is reusable, and it is the freed bucket that comes back -- for the FIRST bucket and for the LAST one (the
    // address -> index mapping of deallocate must agree with the index -> address mapping of allocate for every bucket)
    let victim = if kani::any() { a } else { last };
    unsafe { sut.deallocate_bucket(victim) };
    let c = sut.allocate(req);
    assert!(c.is_ok());      // the freed bucket is available again
    let c = c.unwrap();
    assert!(c.as_ptr() as usize == victim.as_ptr() as usize);
    assert!(sut.allocate(req) == Err(AllocationError::OutOfMemory));
    kani::cover!(true);
}

macro_rules! pool_harness {
    ($name:ident, $s:expr, $a:expr) => {
        #[kani::proof]
        #[kani::unwind(8)]
        #[kani::stub(alloc::fmt::format, nofmt)]
        #[kani::stub(iceoryx2_log::__internal_print_log_msg, nolog)]
        fn $name() { check($s, $a); }
    };
}
pool_harness!(pool_layout_8_8, 8, 8);
pool_harness!(pool_layout_16_8, 16, 8);
pool_harness!(pool_layout_12_4, 12, 4);
pool_harness!(pool_layout_7_1, 7, 1);
pool_harness!(pool_layout_16_16, 16, 16);
// bucket layouts whose size is NOT a multiple of their alignment (core::alloc::Layout allows them)
pool_harness!(pool_layout_10_8, 10, 8);
pool_harness!(pool_layout_6_4, 6, 4);

#[kani::proof]
#[kani::unwind(8)]
#[kani::stub(alloc::fmt::format, nofmt)]
#[kani::stub(iceoryx2_log::__internal_print_log_msg, nolog)]
fn pool_canary_must_fail() {
    let mut mem = Mem { payload: [0; 64], mgmt: [0; 64] };
    let bucket = Layout::from_size_align(8, 8).unwrap();
    let mut sut = unsafe { PoolAllocator::new_uninit(bucket, NonNull::new_unchecked(mem.payload.as_mut_ptr()), REGION_MAX) };
    let bump = BumpAllocator::new(unsafe { NonNull::new_unchecked(mem.mgmt.as_mut_ptr()) }, 64);
    assert!(unsafe { sut.init(&bump) }.is_ok());
    assert!(sut.allocate(bucket).is_err());
}
