// Engine K harness module (C14): relocate-and-free-original for the relocatable containers of iceoryx2-bb-container.
// Same scheme as units/reloc-lf-k: header + payload in ONE heap block (new_uninit + init(&BumpAllocator)), a few symbolic
// operations, byte copy to a fresh block, ORIGINAL FREED, then identical observable behaviour is required of the copy.
extern crate std;
extern crate alloc;
use core::ptr::NonNull;
use iceoryx2_bb_elementary::bump_allocator::BumpAllocator;
use iceoryx2_bb_elementary_traits::relocatable_container::RelocatableContainer;
fn nofmt(_a: core::fmt::Arguments<'_>) -> alloc::string::String { alloc::string::String::new() }
fn nolog(_l: iceoryx2_log::LogLevel, _o: core::fmt::Arguments, _a: core::fmt::Arguments) {}
fn noesc(_b: &[u8]) -> alloc::string::String { alloc::string::String::new() }

const BLOCK: usize = 128;
fn layout() -> std::alloc::Layout { std::alloc::Layout::from_size_align(BLOCK, 16).unwrap() }
unsafe fn build<T: RelocatableContainer>(cap: usize) -> *mut u8 {
    let a = std::alloc::alloc(layout());
    kani::assume(!a.is_null());
    let hdr = core::mem::size_of::<T>();
    assert!(hdr + T::memory_size(cap) <= BLOCK);
    (a as *mut T).write(T::new_uninit(cap));
    let bump = BumpAllocator::new(NonNull::new_unchecked(a.add(hdr)), BLOCK - hdr);
    assert!((*(a as *mut T)).init(&bump).is_ok());
    a
}
unsafe fn relocate(a: *mut u8) -> *mut u8 {
    let b = std::alloc::alloc(layout());
    kani::assume(!b.is_null());
    core::ptr::copy_nonoverlapping(a, b, BLOCK);
    std::alloc::dealloc(a, layout());
    b
}
macro_rules! harness {
    ($name:ident, $unwind:expr, $body:block) => {
        #[kani::proof]
        #[kani::unwind($unwind)]
        #[kani::stub(alloc::fmt::format, nofmt)]
        #[kani::stub(iceoryx2_log::__internal_print_log_msg, nolog)]
        #[kani::stub(crate::string::utils::as_escaped_string, noesc)]
        fn $name() { unsafe { $body } }
    };
}

harness!(reloc_vec, 8, {
    use crate::vector::relocatable_vec::RelocatableVec as V;
    use crate::vector::Vector;
    let a = build::<V<u32>>(3);
    let v = &mut *(a as *mut V<u32>);
    let (x, y, z): (u32, u32, u32) = (kani::any(), kani::any(), kani::any());
    assert!(v.push(x).is_ok());
    assert!(v.push(y).is_ok());
    // every read accessor is used BEFORE the move as well: an address resolved lazily and cached in the header would survive
    assert!(v.as_slice()[0] == x && v.as_slice()[1] == y && v.len() == 2);
    let b = relocate(a);
    let v = &mut *(b as *mut V<u32>);
    assert!(v.len() == 2 && v.as_slice()[0] == x && v.as_slice()[1] == y);
    assert!(v.push(z).is_ok());
    assert!(v.as_slice()[0] == x && v.as_slice()[1] == y && v.as_slice()[2] == z);
    assert!(v.push(0).is_err());
    assert!(v.pop() == Some(z));
    assert!(v.pop() == Some(y));
    kani::cover!(true);
    std::alloc::dealloc(b, layout());
});

harness!(reloc_queue, 8, {
    use crate::queue::RelocatableQueue as Q;
    let a = build::<Q<u32>>(2);
    let q = &mut *(a as *mut Q<u32>);
    let (x, y, z): (u32, u32, u32) = (kani::any(), kani::any(), kani::any());
    assert!(q.push(x));
    assert!(q.pop() == Some(x));
    assert!(q.push(y));             // ring position 1: wrapped content after the next push
    // random access and peek BEFORE the move as well (see reloc_vec)
    assert!(q.get(0) == y && q.peek() == Some(&y));
    let b = relocate(a);
    let q = &mut *(b as *mut Q<u32>);
    assert!(q.len() == 1 && q.peek() == Some(&y) && q.get(0) == y);
    assert!(q.push(z));
    assert!(q.get(1) == z);
    assert!(!q.push(0));
    assert!(q.push_with_overflow(x) == Some(y));
    assert!(q.pop() == Some(z));
    assert!(q.pop() == Some(x));
    assert!(q.pop().is_none());
    kani::cover!(true);
    std::alloc::dealloc(b, layout());
});

harness!(reloc_string, 10, {
    use crate::string::relocatable_string::RelocatableString as S;
    use crate::string::String;
    let a = build::<S>(4);
    let s = &mut *(a as *mut S);
    let (c1, c2, c3): (u8, u8, u8) = (kani::any(), kani::any(), kani::any());
    kani::assume(c1 >= 1 && c1 < 128 && c2 >= 1 && c2 < 128 && c3 >= 1 && c3 < 128);
    assert!(s.push(c1).is_ok());
    assert!(s.push(c2).is_ok());
    assert!(s.as_bytes()[0] == c1 && s.as_bytes()[1] == c2);
    let b = relocate(a);
    let s = &mut *(b as *mut S);
    assert!(s.len() == 2 && s.as_bytes()[0] == c1 && s.as_bytes()[1] == c2);
    assert!(s.push(c3).is_ok());
    assert!(s.as_bytes_with_nul()[0] == c1 && s.as_bytes_with_nul()[1] == c2 && s.as_bytes_with_nul()[2] == c3 && s.as_bytes_with_nul()[3] == 0);
    assert!(s.pop() == Some(c3));
    kani::cover!(true);
    std::alloc::dealloc(b, layout());
});

harness!(reloc_canary_must_fail, 8, {
    use crate::queue::RelocatableQueue as Q;
    let a = build::<Q<u32>>(2);
    let b = relocate(a);
    let q = &mut *(b as *mut Q<u32>);
    assert!(q.pop().is_some());
    std::alloc::dealloc(b, layout());
});
