// Engine K harness module for mpmc::unique_index_set::UniqueIndexSet (real free-list code, sequential semantics).
use super::*;
extern crate std;
extern crate alloc;
fn nofmt(_a: core::fmt::Arguments<'_>) -> alloc::string::String { alloc::string::String::new() }
fn nolog(_l: iceoryx2_log::LogLevel, _o: core::fmt::Arguments, _a: core::fmt::Arguments) {}

pub(crate) const CAP: usize = 3;

/// Representation invariant: walking `next` from the head visits exactly `capacity - borrowed` DISTINCT indices < capacity
/// and ends exactly at the terminator `capacity`.  Returns the free set as a bit mask (None = not well formed).
pub(crate) fn free_set(s: &UniqueIndexSet) -> Option<u32> {
    let h = HeadDetails::from(s.head.load(Ordering::Relaxed));
    let cap = s.capacity;
    let mut seen: u32 = 0;
    let mut cur = h.head;
    let mut n = 0u32;
    let mut k = 0;
    while k <= CAP {
        if cur >= cap { break; }
        if seen & (1 << cur) != 0 { return None; }
        seen |= 1 << cur;
        n += 1;
        cur = *s.get_next_free_index(cur);
        k += 1;
    }
    if cur != cap { return None; }
    if h.borrowed_indices == LOCK_ACQUIRE { return if n == cap { Some(seen) } else { None }; }
    if h.borrowed_indices > cap || n != cap - h.borrowed_indices { return None; }
    Some(seen)
}
pub(crate) fn wf(s: &UniqueIndexSet) -> bool { s.capacity as usize <= CAP && s.capacity >= 1 && free_set(s).is_some() }
pub(crate) fn borrowed(s: &UniqueIndexSet) -> u32 { HeadDetails::from(s.head.load(Ordering::Relaxed)).borrowed_indices }
/// snapshot for old(): (free set, borrowed field)
pub(crate) fn snap(s: &UniqueIndexSet) -> (u32, u32) { (free_set(s).unwrap_or(u32::MAX), borrowed(s)) }

/// acquire: Ok(i) <=> i was free, afterwards exactly i left the free set and the counter is +1;
/// OutOfIndices <=> nothing is free (and not locked); IsLocked <=> locked; failures change nothing
pub(crate) fn post_acquire(s: &UniqueIndexSet, old: (u32, u32), r: &Result<u32, UniqueIndexSetAcquireFailure>) -> bool {
    let (before, b0) = old;
    let after = match free_set(s) { Some(a) => a, None => return false };
    match r {
        Ok(i) => *i < s.capacity && before & (1 << *i) != 0 && after == before & !(1 << *i) && borrowed(s) == b0 + 1 && b0 != LOCK_ACQUIRE,
        Err(UniqueIndexSetAcquireFailure::OutOfIndices) => before == 0 && after == 0 && borrowed(s) == b0,
        Err(UniqueIndexSetAcquireFailure::IsLocked) => b0 == LOCK_ACQUIRE && after == before && borrowed(s) == b0,
    }
}
/// release of a borrowed index: exactly it joins the free set; the counter is -1, or LOCK if it was the last and lock-if-last
pub(crate) fn post_release(s: &UniqueIndexSet, old: (u32, u32), index: u32, mode: ReleaseMode, r: ReleaseState) -> bool {
    let (before, b0) = old;
    let after = match free_set(s) { Some(a) => a, None => return false };
    let lock = mode == ReleaseMode::LockIfLastIndex && b0 == 1;
    after == before | (1 << index) && borrowed(s) == (if lock { LOCK_ACQUIRE } else { b0 - 1 }) && (r == ReleaseState::Locked) == lock
}

/// real struct + cells adjacent (as FixedSizeUniqueIndexSet lays them out); every cell and the head word arbitrary
fn any_state() -> FixedSizeUniqueIndexSet<CAP> {
    let s = FixedSizeUniqueIndexSet::<CAP>::new();
    let mut i = 0;
    while i <= CAP { *s.state.get_next_free_index(i as u32) = kani::any(); i += 1; }
    s.state.head.store(kani::any(), Ordering::Relaxed);
    s
}

#[kani::proof_for_contract(UniqueIndexSet::acquire_raw_index)]
#[kani::unwind(6)]
fn uis_acquire_contract_cap3() {
    let s = any_state();
    let r = unsafe { s.state.acquire_raw_index() };
    kani::cover!(r.is_ok());
    kani::cover!(r == Err(UniqueIndexSetAcquireFailure::OutOfIndices));
    kani::cover!(r == Err(UniqueIndexSetAcquireFailure::IsLocked));
}

#[kani::proof_for_contract(UniqueIndexSet::release_raw_index)]
#[kani::unwind(6)]
fn uis_release_contract_cap3() {
    let s = any_state();
    let mode = if kani::any() { ReleaseMode::LockIfLastIndex } else { ReleaseMode::Default };
    let r = unsafe { s.state.release_raw_index(kani::any(), mode) };
    kani::cover!(r == ReleaseState::Locked);
    kani::cover!(r == ReleaseState::Unlocked);
}

/// init(): wf, everything free, nothing borrowed  (FixedSize flavour builds header + cells and calls the real init)
#[kani::proof]
#[kani::unwind(6)]
#[kani::stub(alloc::fmt::format, nofmt)]
#[kani::stub(iceoryx2_log::__internal_print_log_msg, nolog)]
fn uis_init_all_free() {
    let s = FixedSizeUniqueIndexSet::<CAP>::new();
    assert!(wf(&s.state));
    assert!(free_set(&s.state) == Some(0b111));
    assert!(s.borrowed_indices() == 0 && !s.is_locked());
}

/// borrowed_indices() / is_locked() agree with the representation from every wf state
#[kani::proof]
#[kani::unwind(6)]
fn uis_observers() {
    let s = any_state();
    kani::assume(wf(&s.state));
    let b = borrowed(&s.state);
    assert!(s.state.is_locked() == (b == LOCK_ACQUIRE));
    assert!(s.state.borrowed_indices() == if b == LOCK_ACQUIRE { 0 } else { b as usize });
}

/// C14: relocate-and-free-original: the set (header + cells in one heap block) is copied byte-for-byte, the original freed,
/// then one acquire and one release run on the copy
#[kani::proof]
#[kani::unwind(6)]
#[kani::stub(alloc::fmt::format, nofmt)]
#[kani::stub(iceoryx2_log::__internal_print_log_msg, nolog)]
fn uis_reloc_acquire_release_after_move() {
    unsafe {
        type T = FixedSizeUniqueIndexSet<CAP>;
        let layout = std::alloc::Layout::new::<T>();
        let a = std::alloc::alloc(layout) as *mut T;
        kani::assume(!a.is_null());
        a.write(T::new());
        let sa = &*a;
        let mut i = 0;
        while i <= CAP { *sa.state.get_next_free_index(i as u32) = kani::any(); i += 1; }
        sa.state.head.store(kani::any(), Ordering::Relaxed);
        kani::assume(wf(&sa.state));
        let b = std::alloc::alloc(layout) as *mut T;
        kani::assume(!b.is_null());
        core::ptr::copy_nonoverlapping(a as *const u8, b as *mut u8, layout.size());
        std::alloc::dealloc(a as *mut u8, layout);
        let s = &*b;
        assert!(wf(&s.state));
        let old = snap(&s.state);
        let r = s.state.acquire_raw_index();
        assert!(post_acquire(&s.state, old, &r));
        if let Ok(i) = r {
            let old2 = snap(&s.state);
            let st = s.state.release_raw_index(i, ReleaseMode::Default);
            assert!(post_release(&s.state, old2, i, ReleaseMode::Default, st));
            kani::cover!(true);
        }
        std::alloc::dealloc(b as *mut u8, layout);
    }
}

#[kani::proof]
#[kani::unwind(6)]
fn uis_canary_must_fail() {
    let s = any_state();
    kani::assume(wf(&s.state));
    assert!(unsafe { s.state.acquire_raw_index() }.is_ok());
}
