// Engine K harness module for mpmc::bit_set::BitSet (sequential semantics of set / reset_all / reset_next on the real code),
// capacities that are and are not a multiple of the word size (8 bits).
use super::*;
extern crate alloc;
fn nofmt(_a: core::fmt::Arguments<'_>) -> alloc::string::String { alloc::string::String::new() }
fn nolog(_l: iceoryx2_log::LogLevel, _o: core::fmt::Arguments, _a: core::fmt::Arguments) {}

/// two symbolic ids are notified; reset_all must report EXACTLY the notified ids, each once, and leave the set empty
fn check_reset_all<const CAP: usize>() {
    let s = BitSet::new(CAP);
    let (i, j): (usize, usize) = (kani::any(), kani::any());
    kani::assume(i < CAP && j < CAP);
    assert!(s.set(i));
    assert!(s.set(j) == (i != j));          // a repeated notification is merged, not an error
    let mut seen_i = 0u8; let mut seen_j = 0u8; let mut other = 0u8;
    s.reset_all(|id| { if id == i { seen_i += 1; } else if id == j { seen_j += 1; } else { other += 1; } });
    assert!(seen_i == 1 && other == 0);
    assert!(seen_j == if i == j { 0 } else { 1 });
    // nothing is left
    let mut again = 0u8;
    s.reset_all(|_| { again += 1; });
    assert!(again == 0);
    kani::cover!(i == CAP - 1 && j == 0);
}
/// one symbolic id: reset_next delivers it exactly once, whatever the rotating start position
fn check_reset_next<const CAP: usize>() {
    let s = BitSet::new(CAP);
    let start: usize = kani::any();
    kani::assume(start <= CAP);
    s.reset_position.store(start, Ordering::Relaxed);
    let i: usize = kani::any();
    kani::assume(i < CAP);
    assert!(s.set(i));
    assert!(s.reset_next() == Some(i));
    assert!(s.reset_next().is_none());
    kani::cover!(i == CAP - 1 && start == CAP);
}

macro_rules! harness {
    ($name:ident, $f:ident, $cap:expr, $unwind:expr) => {
        #[kani::proof]
        #[kani::unwind($unwind)]
        #[kani::stub(alloc::fmt::format, nofmt)]
        #[kani::stub(iceoryx2_log::__internal_print_log_msg, nolog)]
        fn $name() { $f::<$cap>(); }
    };
}
harness!(bitset_reset_all_cap8, check_reset_all, 8, 10);
harness!(bitset_reset_all_cap10, check_reset_all, 10, 10);
harness!(bitset_reset_all_cap16, check_reset_all, 16, 10);
harness!(bitset_reset_next_cap8, check_reset_next, 8, 12);
harness!(bitset_reset_next_cap10, check_reset_next, 10, 12);

#[kani::proof]
#[kani::unwind(10)]
fn bitset_canary_must_fail() {
    let s = BitSet::new(8);
    assert!(s.set(3));
    assert!(s.set(3));
}
