use vstd::prelude::*;

macro_rules! fail {
    (from $origin:expr, with $error_value:expr, $($message:expr),*) => {
        return Err($error_value);
    };
    (from $origin:expr, when $call:expr, with $error_value:expr, $($message:expr),*) => {
        {
            let result = $call;
            match result.is_err() {
                true => {
                    return Err($error_value);
                }
                false => {
                    result.ok().unwrap()
                }
            }
        }
    };
}

verus! {

pub enum StringModificationError { InsertWouldExceedCapacity, InvalidCharacter }
#[derive(PartialEq, Eq)]
pub enum SemanticStringError { InvalidContent, ExceedsMaximumLength }

// shim for StaticString<CAPACITY>: contracts proved on the real code by engine K
#[derive(Clone, Copy)]
pub struct StaticString { pub bytes: Ghost<Seq<u8>>, pub cap: Ghost<nat> }
impl StaticString {
    #[verifier::external_body]
    pub fn insert_bytes(&mut self, idx: usize, bytes: &[u8]) -> (r: Result<(), StringModificationError>)
        requires idx <= old(self).bytes@.len()
        ensures final(self).cap == old(self).cap,
            match r {
                Ok(()) => old(self).bytes@.len() + bytes@.len() <= old(self).cap@
                    && final(self).bytes@ == old(self).bytes@.subrange(0, idx as int) + bytes@ + old(self).bytes@.subrange(idx as int, old(self).bytes@.len() as int),
                Err(_) => final(self).bytes == old(self).bytes,
            }
    { unimplemented!() }
    #[verifier::external_body]
    pub fn remove_range(&mut self, idx: usize, len: usize) -> (r: bool)
        requires idx + len <= old(self).bytes@.len()
        ensures final(self).cap == old(self).cap, r,
            final(self).bytes@ == old(self).bytes@.subrange(0, idx as int) + old(self).bytes@.subrange(idx as int + len as int, old(self).bytes@.len() as int)
    { unimplemented!() }
    #[verifier::external_body]
    pub fn as_bytes(&self) -> (r: &[u8]) ensures r@ == self.bytes@ { unimplemented!() }
    #[verifier::external_body]
    pub fn len(&self) -> (r: usize) ensures r == self.bytes@.len() { unimplemented!() }
}

pub open spec fn spec_invalid(s: Seq<u8>) -> bool;   // per-type rule, instantiated in unit `names`

pub struct Name { pub value: StaticString }

impl Name {
    #[verifier::external_body]
    fn is_invalid_content(string: &[u8]) -> (r: bool) ensures r == spec_invalid(string@) { unimplemented!() }
    fn get_mut_string(&mut self) -> (r: &mut StaticString)
        ensures *r == old(self).value, final(self).value == *final(r)
    { &mut self.value }
    fn as_bytes(&self) -> (r: &[u8]) ensures r@ == self.value.bytes@ { self.value.as_bytes() }

    pub open spec fn valid(&self) -> bool { !spec_invalid(self.value.bytes@) }

    fn insert_bytes(&mut self, idx: usize, bytes: &[u8]) -> (r: Result<(), SemanticStringError>)
        requires idx <= old(self).value.bytes@.len(), old(self).value.bytes@.len() + bytes@.len() <= usize::MAX
        ensures
            match r {
                Ok(()) => final(self).valid() && final(self).value.bytes@ ==
                    old(self).value.bytes@.subrange(0, idx as int) + bytes@ + old(self).value.bytes@.subrange(idx as int, old(self).value.bytes@.len() as int),
                Err(_) => final(self).value.bytes@ == old(self).value.bytes@,
            }
    {
        let msg = "Unable to insert byte string";
        fail!(from self, when unsafe { self.get_mut_string().insert_bytes(idx, bytes) },
                with SemanticStringError::ExceedsMaximumLength,
                    "{} \"{}\" since it would exceed the maximum allowed length of {}.",
                        msg, as_escaped_string(bytes), CAPACITY);

        if Self::is_invalid_content(self.as_bytes()) {
            unsafe { self.get_mut_string().remove_range(idx, bytes.len()) };
            fail!(from self, with SemanticStringError::InvalidContent,
                "{} \"{}\" since it would result in an illegal content.",
                msg, as_escaped_string(bytes));
        }

        Ok(())
    }
}

} // verus!
fn main() {}
