use vstd::prelude::*;
verus! {
pub mod lemmas {
use vstd::prelude::*;
pub broadcast proof fn lemma_ring_distinct(a: int, b: int, c: int)
    requires 0 <= a < b < a + c, c > 0
    ensures #[trigger] (a % c) != #[trigger] (b % c)
{
    if a % c == b % c {
        vstd::arithmetic::div_mod::lemma_fundamental_div_mod(a, c);
        vstd::arithmetic::div_mod::lemma_fundamental_div_mod(b, c);
        let qa = a / c; let qb = b / c;
        assert(b - a == c * (qb - qa)) by (nonlinear_arith) requires a == c * qa + a % c, b == c * qb + b % c, a % c == b % c;
        assert(false) by (nonlinear_arith) requires b - a == c * (qb - qa), 0 < b - a < c, c > 0;
    }
}
}

pub enum Ordering { Relaxed, Release, Acquire, AcqRel, SeqCst }

pub struct AtomicU64 { pub v: u64 }
impl AtomicU64 {
    #[verifier::external_body]
    pub fn load(&self, o: Ordering) -> (r: u64) ensures r == self.v { unimplemented!() }
    #[verifier::external_body]
    pub fn store(&mut self, val: u64, o: Ordering) ensures final(self).v == val { unimplemented!() }
}

broadcast use lemmas::lemma_ring_distinct;

pub struct Cells { pub s: Ghost<Seq<u64>> }
pub struct CellPtr { pub idx: usize }

pub struct IndexQueue {
    pub write_position: AtomicU64,
    pub read_position: AtomicU64,
    pub capacity: usize,
    pub cells: Cells,
}

impl IndexQueue {
    pub open spec fn wf(&self) -> bool {
        &&& self.capacity >= 1
        &&& self.cells.s@.len() == self.capacity
        &&& self.read_position.v <= self.write_position.v
        &&& self.write_position.v - self.read_position.v <= self.capacity
        &&& self.write_position.v + self.capacity <= u64::MAX
    }
    pub open spec fn view(&self) -> Seq<u64> {
        Seq::new((self.write_position.v - self.read_position.v) as nat,
            |i: int| self.cells.s@[(self.read_position.v + i) % (self.capacity as int)])
    }

    #[verifier::external_body]
    fn cell_write(&mut self, idx: usize, value: u64)
        requires idx < old(self).cells.s@.len()
        ensures final(self).cells.s@ == old(self).cells.s@.update(idx as int, value),
            final(self).write_position == old(self).write_position,
            final(self).read_position == old(self).read_position,
            final(self).capacity == old(self).capacity,
    { unimplemented!() }

    fn at_index(&self, position: u64) -> (r: usize)
        requires self.capacity >= 1
        ensures r == position % (self.capacity as u64), r < self.capacity
    {
        (position % self.capacity as u64) as usize
    }

    pub unsafe fn push(&mut self, value: u64) -> (r: bool)
        requires old(self).wf(), old(self).write_position.v + old(self).capacity < u64::MAX
        ensures final(self).wf(),
            r == (old(self)@.len() < old(self).capacity),
            r ==> final(self)@ == old(self)@.push(value),
            !r ==> final(self)@ == old(self)@,
            final(self).capacity == old(self).capacity,
    {
        let write_position = self.write_position.load(Ordering::Relaxed);
        let is_full =
            ////////////////
            // SYNC POINT: reading value has finished
            ////////////////
            write_position == self.read_position.load(Ordering::Acquire) + self.capacity as u64;

        if is_full {
            return false;
        }

        unsafe { self.cell_write(self.at_index(write_position), value) };
        ////////////////
        // SYNC POINT: value content visible in pop
        ////////////////
        self.write_position
            .store(write_position + 1, Ordering::Release);

        true
    }
}

} // verus!
fn main() {}
