use vstd::prelude::*;
verus! {

pub struct Q { pub v: Ghost<Seq<u64>>, pub cap: usize }
impl Q {
    #[verifier::external_body]
    pub fn is_full(&self) -> (r: bool) ensures r == (self.v@.len() == self.cap) { unimplemented!() }
    #[verifier::external_body]
    pub fn push(&mut self, x: u64) -> (r: Option<u64>)
        ensures
            old(self).v@.len() < old(self).cap ==> r.is_none() && final(self).v@ == old(self).v@.push(x),
            old(self).v@.len() == old(self).cap ==> r == Some(old(self).v@[0]) && final(self).v@ == old(self).v@.skip(1).push(x),
            final(self).cap == old(self).cap,
    { unimplemented!() }
}
pub struct Channel { pub submission_queue: Q }
pub struct Mgmt { pub channels: Vec<Channel>, pub enable_safe_overflow: bool }
pub struct Storage { pub m: Mgmt }
impl Storage {
    pub fn get(&mut self) -> (r: &mut Mgmt)
        ensures *r == old(self).m, final(self).m == *final(r)
    { &mut self.m }
}
pub struct Sender { pub storage: Storage }

pub enum SendErr { Full }

impl Sender {
    pub fn try_send(&mut self, ptr: u64, channel_id: usize) -> (r: Result<Option<u64>, SendErr>)
        requires channel_id < old(self).storage.m.channels@.len(),
            old(self).storage.m.channels@[channel_id as int].submission_queue.v@.len() <= old(self).storage.m.channels@[channel_id as int].submission_queue.cap,
        ensures
            (!old(self).storage.m.enable_safe_overflow
               && old(self).storage.m.channels@[channel_id as int].submission_queue.v@.len() == old(self).storage.m.channels@[channel_id as int].submission_queue.cap)
              ==> r == Err::<Option<u64>, SendErr>(SendErr::Full) && final(self).storage.m.channels@ == old(self).storage.m.channels@,
    {
        let storage = self.storage.get();

        if !storage.enable_safe_overflow
            && storage.channels[channel_id]
                .submission_queue
                .is_full()
        {
            return Err(SendErr::Full);
        }
        match unsafe { storage.channels[channel_id].submission_queue.push(ptr) } {
            Some(v) => Ok(Some(v)),
            None => Ok(None),
        }
    }
}

} // verus!
fn main() {}
