use vstd::prelude::*;
verus! {

pub open spec fn bad_char(c: u8) -> bool {
    c == 0 || c == 47 || (1 <= c && c <= 31) || c == 92 || c == 60 || c == 62 || c == 34 || c == 124 || c == 63 || c == 42
}

fn invalid_characters(value: &[u8]) -> (r: bool)
    ensures r == exists|i: int| 0 <= i < value@.len() && bad_char(#[trigger] value@[i])
{
    for c in it: value
        invariant forall|j: int| 0 <= j < it.index@ ==> !bad_char(#[trigger] value@[j])
    {
        match c {
            0 => return true,
            b'/' => return true,
            1..=31 => return true,
            b'\\' => return true,
            b'<' => return true,
            b'>' => return true,
            b'"' => return true,
            b'|' => return true,
            b'?' => return true,
            b'*' => return true,
            _ => (),
        }
    }
    false
}

fn invalid_content(value: &[u8]) -> bool {
    matches!(value, b"" | b"." | b"..")
}

} // verus!
fn main() {}
