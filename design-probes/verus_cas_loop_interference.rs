use vstd::prelude::*;

macro_rules! fail {
    (from $origin:expr, with $error_value:expr, $($message:expr),*) => {
        return Err($error_value);
    };
}

verus! {

pub enum Ordering { Relaxed, Release, Acquire, AcqRel, SeqCst }

pub enum ZeroCopyCreationError { AnotherInstanceIsAlreadyConnected, IsBeingCleanedUp, InternalError }

/// Atomic cell under arbitrary interference: `cur` is the value in the modification order that
/// this thread's next access will observe (havoc'd by the environment between accesses);
/// `log` records this thread's own successful read-modify-writes as (observed, written).
pub struct AtomicU8 { pub cur: u8, pub log: Ghost<Seq<(u8, u8)>> }
impl AtomicU8 {
    #[verifier::external_body]
    pub fn load(&mut self, o: Ordering) -> (r: u8)
        ensures final(self).log == old(self).log, r == final(self).cur
    { unimplemented!() }
    #[verifier::external_body]
    pub fn compare_exchange(&mut self, current: u8, new: u8, s: Ordering, f: Ordering) -> (r: Result<u8, u8>)
        ensures
            match r {
                Ok(v) => v == current && final(self).cur == new && final(self).log@ == old(self).log@.push((current, new)),
                Err(v) => v != current && final(self).cur == v && final(self).log == old(self).log,
            }
    { unimplemented!() }
}

#[derive(Clone, Copy, PartialEq, Eq)]
#[repr(u8)]
pub enum State {
    None = 0b00000000,
    Sender = 0b00000001,
    Receiver = 0b00000010,
    MarkedForDestruction = 0b10000000,
}

impl State {
    pub fn value(&self) -> (r: u8)
        ensures r == match *self { State::None => 0u8, State::Sender => 1u8, State::Receiver => 2u8, State::MarkedForDestruction => 128u8 }
    {
        *self as u8
    }
}

pub struct SharedManagementData { pub state: AtomicU8 }

impl SharedManagementData {
    #[verifier::exec_allows_no_decreases_clause]
    pub fn reserve_port(&mut self, new_state: u8, msg: &str) -> (r: Result<(), ZeroCopyCreationError>)
        requires new_state == 1 || new_state == 2
        ensures
            match r {
                Ok(()) => exists|c: u8| #![auto] final(self).state.log@ == old(self).state.log@.push((c, c | new_state)) && c & new_state == 0 && c & 128 == 0,
                Err(e) => final(self).state.log == old(self).state.log,
            }
    {
        let mut current_state = self.state.load(Ordering::Relaxed);

        loop
            invariant_except_break self.state.log == old(self).state.log
            invariant new_state == 1 || new_state == 2
            ensures exists|c: u8| #![auto] self.state.log@ == old(self).state.log@.push((c, c | new_state)) && c & new_state == 0 && c & 128 == 0
        {
            if current_state & new_state != 0 {
                fail!(from self, with ZeroCopyCreationError::AnotherInstanceIsAlreadyConnected,
                "{} since an instance is already connected.", msg);
            } else if current_state & State::MarkedForDestruction.value() != 0 {
                fail!(from self, with ZeroCopyCreationError::IsBeingCleanedUp,
                "{} since the connection is currently being cleaned up.", msg);
            }

            match self.state.compare_exchange(
                current_state,
                current_state | new_state,
                Ordering::Relaxed,
                Ordering::Relaxed,
            ) {
                Ok(_) => break,
                Err(v) => {
                    current_state = v;
                }
            }
        }

        Ok(())
    }
}

} // verus!
fn main() {}
