use vstd::prelude::*;
verus! {
pub mod lemmas {
use vstd::prelude::*;
pub broadcast proof fn lemma_ring_distinct(a: int, b: int, c: int)
    requires 0 <= a < b < a + c, c > 0
    ensures #[trigger] (a % c) != #[trigger] (b % c)
{
    if a % c == b % c {
        vstd::arithmetic::div_mod::lemma_fundamental_div_mod(a, c);
        vstd::arithmetic::div_mod::lemma_fundamental_div_mod(b, c);
        let qa = a / c; let qb = b / c;
        assert(b - a == c * (qb - qa)) by (nonlinear_arith) requires a == c * qa + a % c, b == c * qb + b % c, a % c == b % c;
        assert(false) by (nonlinear_arith) requires b - a == c * (qb - qa), 0 < b - a < c, c > 0;
    }
}
}
broadcast use lemmas::lemma_ring_distinct;

pub enum Ordering { Relaxed, Release, Acquire, AcqRel, SeqCst }

pub struct AtomicU64 { pub v: u64 }
impl AtomicU64 {
    #[verifier::external_body]
    pub fn load(&self, o: Ordering) -> (r: u64) ensures r == self.v { unimplemented!() }
    #[verifier::external_body]
    pub fn store(&mut self, val: u64, o: Ordering) ensures final(self).v == val { unimplemented!() }
    #[verifier::external_body]
    pub fn compare_exchange(&mut self, c: u64, n: u64, s: Ordering, f: Ordering) -> (r: Result<u64, u64>)
        ensures old(self).v == c ==> r == Ok::<u64,u64>(c) && final(self).v == n,
                old(self).v != c ==> r == Err::<u64,u64>(old(self).v) && final(self).v == old(self).v
    { unimplemented!() }
}

pub struct Cells { pub s: Ghost<Seq<u64>> }

pub struct SafelyOverflowingIndexQueue {
    pub capacity: usize,
    pub write_position: AtomicU64,
    pub read_position: AtomicU64,
    pub cells: Cells,
}

impl SafelyOverflowingIndexQueue {
    pub open spec fn wf(&self) -> bool {
        &&& self.cells.s@.len() == self.capacity + 1
        &&& self.capacity + 1 <= usize::MAX
        &&& self.capacity >= 1
        &&& self.read_position.v <= self.write_position.v
        &&& self.write_position.v - self.read_position.v <= self.capacity
        &&& self.write_position.v + self.capacity + 2 <= u64::MAX
    }
    pub open spec fn view(&self) -> Seq<u64> {
        Seq::new((self.write_position.v - self.read_position.v) as nat,
            |i: int| self.cells.s@[(self.read_position.v + i) % (self.capacity as int + 1)])
    }
    #[verifier::external_body]
    fn cell_write(&mut self, idx: usize, value: u64)
        requires idx < old(self).cells.s@.len()
        ensures final(self).cells.s@ == old(self).cells.s@.update(idx as int, value),
            final(self).write_position == old(self).write_position,
            final(self).read_position == old(self).read_position,
            final(self).capacity == old(self).capacity,
    { unimplemented!() }
    #[verifier::external_body]
    fn cell_read(&self, idx: usize) -> (r: u64)
        requires idx < self.cells.s@.len()
        ensures r == self.cells.s@[idx as int]
    { unimplemented!() }

    fn at_index(&self, position: u64) -> (r: usize)
        requires self.capacity + 1 <= usize::MAX
        ensures r == position as int % (self.capacity as int + 1), r < self.capacity + 1
    {
        (position % (self.capacity as u64 + 1)) as usize
    }

    pub unsafe fn push(&mut self, value: u64) -> (r: Option<u64>)
        requires old(self).wf(), old(self).write_position.v + old(self).capacity + 3 <= u64::MAX
        ensures final(self).wf(), final(self).capacity == old(self).capacity,
            old(self)@.len() < old(self).capacity ==> r.is_none() && final(self)@ == old(self)@.push(value),
            old(self)@.len() == old(self).capacity ==> r == Some(old(self)@[0]) && final(self)@ == old(self)@.skip(1).push(value),
    {
        ////////////////
        // SYNC POINT R
        ////////////////
        let write_position = self.write_position.load(Ordering::Acquire);
        let read_position = self.read_position.load(Ordering::Relaxed);
        let is_full = write_position == read_position + self.capacity as u64;

        unsafe { self.cell_write(self.at_index(write_position), value) };

        self.write_position
            .store(write_position + 1, Ordering::Release);

        if is_full
            && self
                .read_position
                .compare_exchange(
                    read_position,
                    read_position + 1,
                    Ordering::AcqRel,
                    Ordering::Relaxed,
                )
                .is_ok()
        {
            let value = unsafe { self.cell_read(self.at_index(read_position)) };
            Some(value)
        } else {
            None
        }
    }
}
} // verus!
fn main() {}
