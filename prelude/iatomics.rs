// ---- prelude/iatomics.rs: the INTERFERENCE atomic (DESIGN.md 2.3) ----
// `cur` is the value in the location's modification order that this thread's NEXT access observes.  It is havoc'd at
// every access (any number of other threads / processes may have written in between), so a contract proved against
// this shim holds for every interleaving of this function with arbitrary other accessors of the same location.
// `log` records this thread's own successful read-modify-writes as (observed, written).  TRUSTED (external_body).
/// `n` is `o` with exactly one more entry `e` (this thread performed exactly one read-modify-write `e.0 -> e.1`)
pub open spec fn log_appended<T>(o: Seq<(T, T)>, n: Seq<(T, T)>, e: (T, T)) -> bool {
    n.len() == o.len() + 1 && n.drop_last() == o && n.last() == e
}
/// one more entry whose written value is `w` (blind store: the overwritten value is whatever was there)
pub open spec fn log_stored<T>(o: Seq<(T, T)>, n: Seq<(T, T)>, w: T) -> bool {
    n.len() == o.len() + 1 && n.drop_last() == o && n.last().1 == w
}
#[derive(Clone, Copy)]
pub enum Ordering { Relaxed, Release, Acquire, AcqRel, SeqCst }

pub struct IAtomicU8 { pub cur: u8, pub log: Ghost<Seq<(u8, u8)>> }
impl IAtomicU8 {
    #[verifier::external_body]
    pub fn load(&mut self, o: Ordering) -> (r: u8)
        ensures final(self).log == old(self).log, r == final(self).cur
    { unimplemented!() }
    #[verifier::external_body]
    pub fn store(&mut self, val: u8, o: Ordering)
        ensures log_stored(old(self).log@, final(self).log@, val), final(self).cur == val
    { unimplemented!() }
    #[verifier::external_body]
    pub fn compare_exchange(&mut self, current: u8, new: u8, s: Ordering, f: Ordering) -> (r: Result<u8, u8>)
        ensures match r {
            Ok(v) => v == current && final(self).cur == new && log_appended(old(self).log@, final(self).log@, (current, new)),
            Err(v) => v != current && final(self).cur == v && final(self).log == old(self).log,
        }
    { unimplemented!() }
}

pub struct IAtomicU64 { pub cur: u64, pub log: Ghost<Seq<(u64, u64)>> }
impl IAtomicU64 {
    #[verifier::external_body]
    pub fn load(&mut self, o: Ordering) -> (r: u64)
        ensures final(self).log == old(self).log, r == final(self).cur
    { unimplemented!() }
    #[verifier::external_body]
    pub fn store(&mut self, val: u64, o: Ordering)
        ensures log_stored(old(self).log@, final(self).log@, val), final(self).cur == val
    { unimplemented!() }
    #[verifier::external_body]
    pub fn compare_exchange(&mut self, current: u64, new: u64, s: Ordering, f: Ordering) -> (r: Result<u64, u64>)
        ensures match r {
            Ok(v) => v == current && final(self).cur == new && log_appended(old(self).log@, final(self).log@, (current, new)),
            Err(v) => v != current && final(self).cur == v && final(self).log == old(self).log,
        }
    { unimplemented!() }
    #[verifier::external_body]
    pub fn compare_exchange_weak(&mut self, current: u64, new: u64, s: Ordering, f: Ordering) -> (r: Result<u64, u64>)
        ensures match r {
            Ok(v) => v == current && final(self).cur == new && log_appended(old(self).log@, final(self).log@, (current, new)),
            Err(v) => final(self).cur == v && final(self).log == old(self).log,
        }
    { unimplemented!() }
    #[verifier::external_body]
    pub fn fetch_or(&mut self, val: u64, o: Ordering) -> (r: u64)
        ensures log_appended(old(self).log@, final(self).log@, (r, r | val)), final(self).cur == r | val
    { unimplemented!() }
    #[verifier::external_body]
    pub fn fetch_and(&mut self, val: u64, o: Ordering) -> (r: u64)
        ensures log_appended(old(self).log@, final(self).log@, (r, r & val)), final(self).cur == r & val
    { unimplemented!() }
    #[verifier::external_body]
    pub fn fetch_add(&mut self, val: u64, o: Ordering) -> (r: u64)
        ensures log_appended(old(self).log@, final(self).log@, (r, (if r + val <= u64::MAX { r + val } else { r + val - 0x1_0000_0000_0000_0000 }) as u64)),
            final(self).cur == (if r + val <= u64::MAX { r + val } else { r + val - 0x1_0000_0000_0000_0000 }) as u64
    { unimplemented!() }
}

pub struct IAtomicUsize { pub cur: usize, pub log: Ghost<Seq<(usize, usize)>> }
impl IAtomicUsize {
    #[verifier::external_body]
    pub fn load(&mut self, o: Ordering) -> (r: usize)
        ensures final(self).log == old(self).log, r == final(self).cur
    { unimplemented!() }
    #[verifier::external_body]
    pub fn compare_exchange(&mut self, current: usize, new: usize, s: Ordering, f: Ordering) -> (r: Result<usize, usize>)
        ensures match r {
            Ok(v) => v == current && final(self).cur == new && log_appended(old(self).log@, final(self).log@, (current, new)),
            Err(v) => v != current && final(self).cur == v && final(self).log == old(self).log,
        }
    { unimplemented!() }
    #[verifier::external_body]
    pub fn compare_exchange_weak(&mut self, current: usize, new: usize, s: Ordering, f: Ordering) -> (r: Result<usize, usize>)
        ensures match r {
            Ok(v) => v == current && final(self).cur == new && log_appended(old(self).log@, final(self).log@, (current, new)),
            Err(v) => final(self).cur == v && final(self).log == old(self).log,
        }
    { unimplemented!() }
}

pub struct IAtomicBool { pub cur: bool, pub log: Ghost<Seq<(bool, bool)>> }
impl IAtomicBool {
    #[verifier::external_body]
    pub fn load(&mut self, o: Ordering) -> (r: bool)
        ensures final(self).log == old(self).log, r == final(self).cur
    { unimplemented!() }
    #[verifier::external_body]
    pub fn store(&mut self, val: bool, o: Ordering)
        ensures log_stored(old(self).log@, final(self).log@, val), final(self).cur == val
    { unimplemented!() }
    #[verifier::external_body]
    pub fn compare_exchange(&mut self, current: bool, new: bool, s: Ordering, f: Ordering) -> (r: Result<bool, bool>)
        ensures match r {
            Ok(v) => v == current && final(self).cur == new && log_appended(old(self).log@, final(self).log@, (current, new)),
            Err(v) => v != current && final(self).cur == v && final(self).log == old(self).log,
        }
    { unimplemented!() }
}

#[verifier::external_body]
pub fn verif_fatal_panic() -> (r: !) requires false { panic!() }
// ---- end prelude/iatomics.rs ----
