// ---- prelude/model_string.rs: byte-string model of StaticString<CAPACITY> (the `String` trait of iceoryx2-bb-container) ----
// The contracts below are the reference (std-like) semantics of the String trait operations; they are cross-checked on the
// real MaybeUninit code by engine K unit `string` (bounded capacity).  TRUSTED in engine V units (external_body).
//@include prelude/string_contracts.rs
pub enum StringModificationError { InsertWouldExceedCapacity, InvalidCharacter }
pub open spec fn is_prefix(p: Seq<u8>, s: Seq<u8>) -> bool { occurs_at(p, s, 0) }
pub open spec fn is_suffix(p: Seq<u8>, s: Seq<u8>) -> bool { occurs_at(p, s, s.len() - p.len()) }
pub open spec fn occurs_at(p: Seq<u8>, s: Seq<u8>, i: int) -> bool { sc_occurs_at(p, s, i) }
pub open spec fn unsupported_byte(b: u8) -> bool { sc_unsupported_byte(b) }

#[derive(Clone, Copy)]
pub struct StaticString { pub bytes: Ghost<Seq<u8>>, pub cap: Ghost<nat> }
impl StaticString {
    #[verifier::external_body]
    pub fn insert_bytes(&mut self, idx: usize, bytes: &[u8]) -> (r: Result<(), StringModificationError>)
        requires idx <= old(self).bytes@.len()      // the real code fatal_panic!s otherwise
        ensures final(self).cap == old(self).cap,
            match r {
                Ok(()) => sc_insert_bytes_ok(old(self).bytes@, old(self).cap@ as int, idx as int, bytes@, final(self).bytes@),
                Err(StringModificationError::InsertWouldExceedCapacity) => final(self).bytes == old(self).bytes && sc_insert_bytes_exceeds(old(self).bytes@, old(self).cap@ as int, bytes@),
                Err(StringModificationError::InvalidCharacter) => final(self).bytes == old(self).bytes && sc_insert_bytes_invalid(bytes@),
            }
    { unimplemented!() }
    #[verifier::external_body]
    pub fn insert_bytes_unchecked(&mut self, idx: usize, bytes: &[u8])
        requires idx <= old(self).bytes@.len(), old(self).bytes@.len() + bytes@.len() <= old(self).cap@
        ensures final(self).cap == old(self).cap, final(self).bytes@ =~= sc_inserted(old(self).bytes@, idx as int, bytes@),
    { unimplemented!() }
    #[verifier::external_body]
    pub fn remove_range(&mut self, idx: usize, len: usize) -> (r: bool)
        requires idx + len <= usize::MAX
        ensures final(self).cap == old(self).cap, sc_remove_range(old(self).bytes@, idx as int, len as int, final(self).bytes@, r),
            !r ==> final(self).bytes == old(self).bytes,
    { unimplemented!() }
    #[verifier::external_body]
    pub fn remove(&mut self, idx: usize) -> (r: Option<u8>)
        ensures final(self).cap == old(self).cap, sc_remove(old(self).bytes@, idx as int, final(self).bytes@, r),
            idx >= old(self).bytes@.len() ==> final(self).bytes == old(self).bytes,
    { unimplemented!() }
    #[verifier::external_body]
    pub fn strip_prefix(&mut self, bytes: &[u8]) -> (r: bool)
        ensures final(self).cap == old(self).cap, r == is_prefix(bytes@, old(self).bytes@),
            r ==> final(self).bytes@ == old(self).bytes@.subrange(bytes@.len() as int, old(self).bytes@.len() as int),
            !r ==> final(self).bytes == old(self).bytes,
    { unimplemented!() }
    #[verifier::external_body]
    pub fn strip_suffix(&mut self, bytes: &[u8]) -> (r: bool)
        ensures final(self).cap == old(self).cap, r == is_suffix(bytes@, old(self).bytes@),
            r ==> final(self).bytes@ == old(self).bytes@.subrange(0, old(self).bytes@.len() - bytes@.len()),
            !r ==> final(self).bytes == old(self).bytes,
    { unimplemented!() }
    #[verifier::external_body]
    pub fn truncate(&mut self, new_len: usize)
        ensures final(self).cap == old(self).cap, sc_truncate(old(self).bytes@, new_len as int, final(self).bytes@),
            new_len > old(self).bytes@.len() ==> final(self).bytes == old(self).bytes,
    { unimplemented!() }
    #[verifier::external_body]
    pub fn find(&self, bytes: &[u8]) -> (r: Option<usize>)
        ensures match r {
            Some(i) => occurs_at(bytes@, self.bytes@, i as int) && forall|j: int| 0 <= j < i ==> !occurs_at(bytes@, self.bytes@, j),
            None => forall|j: int| !occurs_at(bytes@, self.bytes@, j),
        }
    { unimplemented!() }
    #[verifier::external_body]
    pub fn rfind(&self, bytes: &[u8]) -> (r: Option<usize>)
        ensures match r {
            Some(i) => occurs_at(bytes@, self.bytes@, i as int) && forall|j: int| j > i ==> !occurs_at(bytes@, self.bytes@, j),
            None => forall|j: int| !occurs_at(bytes@, self.bytes@, j),
        }
    { unimplemented!() }
    #[verifier::external_body]
    pub fn as_bytes(&self) -> (r: &[u8]) ensures r@ == self.bytes@ { unimplemented!() }
    #[verifier::external_body]
    pub fn len(&self) -> (r: usize) ensures r == self.bytes@.len() { unimplemented!() }
    #[verifier::external_body]
    pub fn is_empty(&self) -> (r: bool) ensures r == (self.bytes@.len() == 0) { unimplemented!() }
    #[verifier::external_body]
    pub fn is_full(&self) -> (r: bool) ensures r == (self.bytes@.len() == self.cap@) { unimplemented!() }
}
// ---- end prelude/model_string.rs ----
