// ---- prelude/model_iq.rs: state model shared by the unit that proves the contracts and the units that compose them ----
// State restated for the verifier: the fields the extracted functions use.  `cells` stands for the
// `capacity` u64 cells behind `data_ptr` (owning or relocatable pointer) -- assumption A-shim.
pub struct IndexQueue {
    pub write_position: AtomicU64,
    pub read_position: AtomicU64,
    pub capacity: usize,
    pub cells: Ghost<Seq<u64>>,
}

impl IndexQueue {
    pub open spec fn wf(&self) -> bool {
        &&& self.capacity >= 1
        &&& self.cells@.len() == self.capacity
        &&& self.read_position.v <= self.write_position.v
        &&& self.write_position.v - self.read_position.v <= self.capacity
    }
    /// logical content, oldest first
    pub open spec fn view(&self) -> Seq<u64> {
        Seq::new((self.write_position.v - self.read_position.v) as nat,
            |i: int| self.cells@[(self.read_position.v + i) % (self.capacity as int)])
    }

    // TRUSTED cell array access (raw pointer write / read of the real code)
    #[verifier::external_body]
    pub fn cell_write(&mut self, idx: usize, value: u64)
        requires idx < old(self).cells@.len()
        ensures final(self).cells@ == old(self).cells@.update(idx as int, value),
            final(self).write_position == old(self).write_position,
            final(self).read_position == old(self).read_position,
            final(self).capacity == old(self).capacity,
    { unimplemented!() }
    #[verifier::external_body]
    pub fn cell_read(&self, idx: usize) -> (r: u64)
        requires idx < self.cells@.len()
        ensures r == self.cells@[idx as int]
    { unimplemented!() }
}
// ---- end prelude/model_iq.rs ----
