// ---- prelude/string_contracts.rs: the postconditions of the String-trait mutators as spec functions over (content before,
// capacity, arguments, content after, result).  SINGLE SOURCE: unit `string` PROVES them on the real bodies of string/mod.rs,
// prelude/model_string.rs hands the very same predicates to the composing units (semstr, naming) as shim contracts. ----
pub open spec fn sc_unsupported_byte(b: u8) -> bool { b >= 128 || b == 0 }
pub open spec fn sc_inserted(s0: Seq<u8>, idx: int, bytes: Seq<u8>) -> Seq<u8> { s0.subrange(0, idx) + bytes + s0.subrange(idx, s0.len() as int) }
pub open spec fn sc_insert_bytes_ok(s0: Seq<u8>, cap: int, idx: int, bytes: Seq<u8>, s1: Seq<u8>) -> bool {
    s0.len() + bytes.len() <= cap && (forall|i: int| 0 <= i < bytes.len() ==> !sc_unsupported_byte(#[trigger] bytes[i]))
        && s1 =~= sc_inserted(s0, idx, bytes)
}
pub open spec fn sc_insert_bytes_exceeds(s0: Seq<u8>, cap: int, bytes: Seq<u8>) -> bool { s0.len() + bytes.len() > cap }
pub open spec fn sc_insert_bytes_invalid(bytes: Seq<u8>) -> bool { exists|i: int| 0 <= i < bytes.len() && sc_unsupported_byte(#[trigger] bytes[i]) }
pub open spec fn sc_remove_range(s0: Seq<u8>, idx: int, len: int, s1: Seq<u8>, r: bool) -> bool {
    r == (idx + len <= s0.len()) && (r ==> s1 =~= s0.subrange(0, idx) + s0.subrange(idx + len, s0.len() as int))
}
pub open spec fn sc_remove(s0: Seq<u8>, idx: int, s1: Seq<u8>, r: Option<u8>) -> bool {
    (idx < s0.len() ==> r == Some(s0[idx]) && s1 =~= s0.remove(idx)) && (idx >= s0.len() ==> r is None)
}
pub open spec fn sc_truncate(s0: Seq<u8>, new_len: int, s1: Seq<u8>) -> bool {
    new_len <= s0.len() ==> s1 =~= s0.subrange(0, new_len)
}
/// the first k bytes of p match s at position i / p occurs in s at position i (pointwise form)
pub open spec fn sc_match_upto(p: Seq<u8>, s: Seq<u8>, i: int, k: int) -> bool { forall|n: int| 0 <= n < k ==> s[i + n] == #[trigger] p[n] }
pub open spec fn sc_occurs_at(p: Seq<u8>, s: Seq<u8>, i: int) -> bool { 0 <= i && i + p.len() <= s.len() && sc_match_upto(p, s, i, p.len() as int) }
// ---- end prelude/string_contracts.rs ----
