// ---- prelude/model_soiq.rs: state model shared by the unit that proves the contracts and the units that compose them ----
pub struct SafelyOverflowingIndexQueue {
    pub capacity: usize,
    pub write_position: AtomicU64,
    pub read_position: AtomicU64,
    pub cells: Ghost<Seq<u64>>,     // the capacity + 1 slots behind data_ptr (A-shim)
}

impl SafelyOverflowingIndexQueue {
    pub open spec fn wf(&self) -> bool {
        &&& self.cells@.len() == self.capacity + 1
        &&& self.capacity + 1 <= usize::MAX
        &&& self.read_position.v <= self.write_position.v
        &&& self.write_position.v - self.read_position.v <= self.capacity
    }
    /// A-mach: cursors stay far below 2^64
    pub open spec fn mach(&self) -> bool { self.write_position.v + self.capacity + 3 <= u64::MAX }
    pub open spec fn view(&self) -> Seq<u64> {
        Seq::new((self.write_position.v - self.read_position.v) as nat,
            |i: int| self.cells@[(self.read_position.v + i) % (self.capacity as int + 1)])
    }
    #[verifier::external_body]
    pub fn cell_write(&mut self, idx: usize, value: u64)
        requires idx < old(self).cells@.len()
        ensures final(self).cells@ == old(self).cells@.update(idx as int, value),
            final(self).write_position == old(self).write_position,
            final(self).read_position == old(self).read_position,
            final(self).capacity == old(self).capacity,
    { unimplemented!() }
    #[verifier::external_body]
    pub fn cell_read(&self, idx: usize) -> (r: u64)
        requires idx < self.cells@.len()
        ensures r == self.cells@[idx as int]
    { unimplemented!() }
}
// ---- end prelude/model_soiq.rs ----
