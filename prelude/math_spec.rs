// ---- prelude/math_spec.rs: mathematical specification of `align` and its consequences ----
pub mod mspec {
use vstd::prelude::*;
/// smallest multiple of `a` that is >= `v`   (a > 0)
pub open spec fn spec_align(v: int, a: int) -> int {
    if v % a == 0 { v } else { v + a - v % a }
}
pub proof fn lemma_spec_align(v: int, a: int)
    requires v >= 0, a > 0
    ensures
        spec_align(v, a) >= v,
        spec_align(v, a) < v + a,
        spec_align(v, a) % a == 0,
        v % a == 0 ==> spec_align(v, a) == v,
        // minimality: every multiple of a that is >= v is >= spec_align(v, a)
        forall|m: int| m >= v && #[trigger] (m % a) == 0 ==> m >= spec_align(v, a),
{
    vstd::arithmetic::div_mod::lemma_fundamental_div_mod(v, a);
    vstd::arithmetic::div_mod::lemma_mod_bound(v, a);
    if v % a != 0 {
        let q = v / a;
        let r = v + a - v % a;
        assert(r == a * (q + 1)) by (nonlinear_arith) requires v == a * q + v % a, r == v + a - v % a;
        vstd::arithmetic::div_mod::lemma_mod_multiples_basic(q + 1, a);
        assert((a * (q + 1)) % a == 0) by { vstd::arithmetic::mul::lemma_mul_is_commutative(a, q + 1); }
        assert forall|m: int| m >= v && #[trigger] (m % a) == 0 implies m >= r by {
            vstd::arithmetic::div_mod::lemma_fundamental_div_mod(m, a);
            let k = m / a;
            if m < r {
                assert(a * k < a * (q + 1));
                assert(k < q + 1) by (nonlinear_arith) requires a * k < a * (q + 1), a > 0;
                assert(a * k <= a * q) by (nonlinear_arith) requires k <= q, a > 0;
                assert(false);
            }
        }
    }
}
// usize::is_multiple_of (TRUSTED: core semantics; rhs == 0 => self == 0)
#[verifier::external_body]
pub const fn is_multiple_of(v: usize, a: usize) -> (r: bool)
    ensures r == (if a == 0 { v == 0 } else { v % a == 0 })
{ v.is_multiple_of(a) }
pub broadcast proof fn lemma_spec_align_b(v: int, a: int)
    requires v >= 0, a > 0
    ensures #[trigger] spec_align(v, a) >= v, spec_align(v, a) < v + a, spec_align(v, a) % a == 0
{ lemma_spec_align(v, a); }
} // mod mspec
pub use mspec::*;
// ---- end prelude/math_spec.rs ----
