// ---- prelude/seq_atomics.rs: sequential atomic cells (value semantics, memory orderings ignored) ----
// TRUSTED: every method is external_body; the ensures clauses ARE the assumed semantics (assumption A-seq).
#[derive(Clone, Copy)]
pub enum Ordering { Relaxed, Release, Acquire, AcqRel, SeqCst }

pub struct AtomicU64 { pub v: u64 }
impl AtomicU64 {
    #[verifier::external_body]
    pub fn new(v: u64) -> (r: Self) ensures r.v == v { unimplemented!() }
    #[verifier::external_body]
    pub fn load(&self, o: Ordering) -> (r: u64) ensures r == self.v { unimplemented!() }
    #[verifier::external_body]
    pub fn store(&mut self, val: u64, o: Ordering) ensures final(self).v == val { unimplemented!() }
    #[verifier::external_body]
    pub fn swap(&mut self, val: u64, o: Ordering) -> (r: u64) ensures final(self).v == val, r == old(self).v { unimplemented!() }
    #[verifier::external_body]
    pub fn fetch_add(&mut self, val: u64, o: Ordering) -> (r: u64)
        ensures r == old(self).v,
            final(self).v == (if old(self).v + val <= u64::MAX { old(self).v + val } else { old(self).v + val - 0x1_0000_0000_0000_0000 }) as u64
    { unimplemented!() }
    #[verifier::external_body]
    pub fn fetch_sub(&mut self, val: u64, o: Ordering) -> (r: u64)
        ensures r == old(self).v,
            final(self).v == (if old(self).v >= val { old(self).v - val } else { old(self).v - val + 0x1_0000_0000_0000_0000 }) as u64
    { unimplemented!() }
    #[verifier::external_body]
    pub fn compare_exchange(&mut self, current: u64, new: u64, s: Ordering, f: Ordering) -> (r: Result<u64, u64>)
        ensures match r {
            Ok(x) => x == current && old(self).v == current && final(self).v == new,
            Err(x) => x == old(self).v && x != current && final(self).v == old(self).v,
        }
    { unimplemented!() }
    // compare_exchange_weak may fail spuriously
    #[verifier::external_body]
    pub fn compare_exchange_weak(&mut self, current: u64, new: u64, s: Ordering, f: Ordering) -> (r: Result<u64, u64>)
        ensures match r {
            Ok(x) => x == current && old(self).v == current && final(self).v == new,
            Err(x) => x == old(self).v && final(self).v == old(self).v,
        }
    { unimplemented!() }
}

pub struct AtomicUsize { pub v: usize }
impl AtomicUsize {
    #[verifier::external_body]
    pub fn new(v: usize) -> (r: Self) ensures r.v == v { unimplemented!() }
    #[verifier::external_body]
    pub fn load(&self, o: Ordering) -> (r: usize) ensures r == self.v { unimplemented!() }
    #[verifier::external_body]
    pub fn store(&mut self, val: usize, o: Ordering) ensures final(self).v == val { unimplemented!() }
    #[verifier::external_body]
    pub fn fetch_add(&mut self, val: usize, o: Ordering) -> (r: usize)
        ensures r == old(self).v,
            final(self).v == (if old(self).v + val <= usize::MAX { old(self).v + val } else { old(self).v + val - usize::MAX - 1 }) as usize
    { unimplemented!() }
    #[verifier::external_body]
    pub fn fetch_sub(&mut self, val: usize, o: Ordering) -> (r: usize)
        ensures r == old(self).v,
            final(self).v == (if old(self).v >= val { old(self).v - val } else { old(self).v - val + usize::MAX + 1 }) as usize
    { unimplemented!() }
    #[verifier::external_body]
    pub fn compare_exchange(&mut self, current: usize, new: usize, s: Ordering, f: Ordering) -> (r: Result<usize, usize>)
        ensures match r {
            Ok(x) => x == current && old(self).v == current && final(self).v == new,
            Err(x) => x == old(self).v && x != current && final(self).v == old(self).v,
        }
    { unimplemented!() }
}

pub struct AtomicBool { pub v: bool }
impl AtomicBool {
    #[verifier::external_body]
    pub fn new(v: bool) -> (r: Self) ensures r.v == v { unimplemented!() }
    #[verifier::external_body]
    pub fn load(&self, o: Ordering) -> (r: bool) ensures r == self.v { unimplemented!() }
    #[verifier::external_body]
    pub fn store(&mut self, val: bool, o: Ordering) ensures final(self).v == val { unimplemented!() }
    #[verifier::external_body]
    pub fn swap(&mut self, val: bool, o: Ordering) -> (r: bool) ensures final(self).v == val, r == old(self).v { unimplemented!() }
    #[verifier::external_body]
    pub fn compare_exchange(&mut self, current: bool, new: bool, s: Ordering, f: Ordering) -> (r: Result<bool, bool>)
        ensures match r {
            Ok(x) => x == current && old(self).v == current && final(self).v == new,
            Err(x) => x == old(self).v && x != current && final(self).v == old(self).v,
        }
    { unimplemented!() }
}

pub struct AtomicU8 { pub v: u8 }
impl AtomicU8 {
    #[verifier::external_body]
    pub fn new(v: u8) -> (r: Self) ensures r.v == v { unimplemented!() }
    #[verifier::external_body]
    pub fn load(&self, o: Ordering) -> (r: u8) ensures r == self.v { unimplemented!() }
    #[verifier::external_body]
    pub fn store(&mut self, val: u8, o: Ordering) ensures final(self).v == val { unimplemented!() }
    #[verifier::external_body]
    pub fn fetch_add(&mut self, val: u8, o: Ordering) -> (r: u8)
        ensures r == old(self).v, final(self).v == (if old(self).v + val <= u8::MAX { old(self).v + val } else { old(self).v + val - 0x100 }) as u8
    { unimplemented!() }
    #[verifier::external_body]
    pub fn fetch_sub(&mut self, val: u8, o: Ordering) -> (r: u8)
        ensures r == old(self).v, final(self).v == (if old(self).v >= val { old(self).v - val } else { old(self).v - val + 0x100 }) as u8
    { unimplemented!() }
    #[verifier::external_body]
    pub fn compare_exchange(&mut self, current: u8, new: u8, s: Ordering, f: Ordering) -> (r: Result<u8, u8>)
        ensures match r {
            Ok(x) => x == current && old(self).v == current && final(self).v == new,
            Err(x) => x == old(self).v && x != current && final(self).v == old(self).v,
        }
    { unimplemented!() }
}

pub struct AtomicU16 { pub v: u16 }
impl AtomicU16 {
    #[verifier::external_body]
    pub fn new(v: u16) -> (r: Self) ensures r.v == v { unimplemented!() }
    #[verifier::external_body]
    pub fn load(&self, o: Ordering) -> (r: u16) ensures r == self.v { unimplemented!() }
    #[verifier::external_body]
    pub fn store(&mut self, val: u16, o: Ordering) ensures final(self).v == val { unimplemented!() }
    #[verifier::external_body]
    pub fn fetch_add(&mut self, val: u16, o: Ordering) -> (r: u16)
        ensures r == old(self).v, final(self).v == (if old(self).v + val <= u16::MAX { old(self).v + val } else { old(self).v + val - 0x1_0000 }) as u16
    { unimplemented!() }
    #[verifier::external_body]
    pub fn fetch_sub(&mut self, val: u16, o: Ordering) -> (r: u16)
        ensures r == old(self).v, final(self).v == (if old(self).v >= val { old(self).v - val } else { old(self).v - val + 0x1_0000 }) as u16
    { unimplemented!() }
    #[verifier::external_body]
    pub fn compare_exchange(&mut self, current: u16, new: u16, s: Ordering, f: Ordering) -> (r: Result<u16, u16>)
        ensures match r {
            Ok(x) => x == current && old(self).v == current && final(self).v == new,
            Err(x) => x == old(self).v && x != current && final(self).v == old(self).v,
        }
    { unimplemented!() }
}

pub struct AtomicU32 { pub v: u32 }
impl AtomicU32 {
    #[verifier::external_body]
    pub fn new(v: u32) -> (r: Self) ensures r.v == v { unimplemented!() }
    #[verifier::external_body]
    pub fn load(&self, o: Ordering) -> (r: u32) ensures r == self.v { unimplemented!() }
    #[verifier::external_body]
    pub fn store(&mut self, val: u32, o: Ordering) ensures final(self).v == val { unimplemented!() }
    #[verifier::external_body]
    pub fn fetch_add(&mut self, val: u32, o: Ordering) -> (r: u32)
        ensures r == old(self).v, final(self).v == (if old(self).v + val <= u32::MAX { old(self).v + val } else { old(self).v + val - 0x1_0000_0000 }) as u32
    { unimplemented!() }
    #[verifier::external_body]
    pub fn fetch_sub(&mut self, val: u32, o: Ordering) -> (r: u32)
        ensures r == old(self).v, final(self).v == (if old(self).v >= val { old(self).v - val } else { old(self).v - val + 0x1_0000_0000 }) as u32
    { unimplemented!() }
    #[verifier::external_body]
    pub fn compare_exchange(&mut self, current: u32, new: u32, s: Ordering, f: Ordering) -> (r: Result<u32, u32>)
        ensures match r {
            Ok(x) => x == current && old(self).v == current && final(self).v == new,
            Err(x) => x == old(self).v && x != current && final(self).v == old(self).v,
        }
    { unimplemented!() }
}

// fatal_panic! target: reaching it is an obligation failure (requires false) unless a unit says otherwise
#[verifier::external_body]
pub fn verif_fatal_panic() -> (r: !) requires false { panic!() }
// ---- end prelude/seq_atomics.rs ----
