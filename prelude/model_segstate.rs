// ---- prelude/model_segstate.rs: SegmentState of the CURRENT tree (the struct definition is extracted, so the width of the
// reference counter is whatever /repo declares) + width-agnostic spec views ----
//@item file=iceoryx2/src/port/details/segment_state.rs | item=struct SegmentState | pubfields | bind CTRVEC chunk_reference_counter:\s*(Vec<\w+>)
impl SegmentState {
    /// per-chunk reference counts (mathematical integers: independent of the counter's machine width)
    pub open spec fn counts(&self) -> Seq<int> { Seq::new(self.chunk_reference_counter@.len(), |i: int| self.chunk_reference_counter@[i].v as int) }
    /// the offset was produced by this segment's allocator: a multiple of the chunk size inside the segment
    pub open spec fn valid_offset(&self, d: usize) -> bool {
        self.payload_size.v > 0 && d % self.payload_size.v == 0 && d / self.payload_size.v < self.chunk_reference_counter@.len()
    }
}
// ---- end prelude/model_segstate.rs ----
