// ---- prelude/proto_spsc.rs: the bounded SPSC ring protocol of spsc::index_queue and spsc::queue (same accesses, same
// order), generic in the cell type: recorded accesses, the producer / consumer automata, the per-call run relations used
// as function contracts, and the global system with its inductive invariant (units iq-conc, spscq-conc) ----
pub enum Op<T> {
    LoadW { v: u64 }, LoadR { v: u64 }, StoreW { v: u64 }, StoreR { v: u64 },
    WriteCell { idx: usize, val: T }, ReadCell { idx: usize, val: T },
}
// ------------------------------------------------------------------------------------------------ the two automata
pub enum PPc { Idle, GotW, GotR, Wrote }
pub enum CPc { Idle, GotR, GotW, Read }
pub struct PLoc<T> { pub pc: PPc, pub w: u64, pub r: u64, pub val: T }
pub struct CLoc<T> { pub pc: CPc, pub r: u64, pub w: u64, pub val: T }

/// producer: load own position; load the consumer's position; full <=> w == r + capacity => give up;
/// else write cell w % capacity, THEN publish w + 1
pub open spec fn pedge<T>(l: PLoc<T>, op: Op<T>, cap: usize) -> Option<PLoc<T>> {
    match (l.pc, op) {
        (PPc::Idle, Op::LoadW { v }) => Some(PLoc { pc: PPc::GotW, w: v, ..l }),
        (PPc::GotW, Op::LoadR { v }) => Some(PLoc { pc: if l.w == v + cap { PPc::Idle } else { PPc::GotR }, r: v, ..l }),
        (PPc::GotR, Op::WriteCell { idx, val }) => if idx == l.w % (cap as u64) && val == l.val { Some(PLoc { pc: PPc::Wrote, ..l }) } else { None },
        (PPc::Wrote, Op::StoreW { v }) => if v == l.w + 1 { Some(PLoc { pc: PPc::Idle, ..l }) } else { None },
        _ => None,
    }
}
/// consumer: load own position; load the producer's position; empty <=> r == w => give up;
/// else read cell r % capacity, THEN publish r + 1
pub open spec fn cedge<T>(l: CLoc<T>, op: Op<T>, cap: usize) -> Option<CLoc<T>> {
    match (l.pc, op) {
        (CPc::Idle, Op::LoadR { v }) => Some(CLoc { pc: CPc::GotR, r: v, ..l }),
        (CPc::GotR, Op::LoadW { v }) => Some(CLoc { pc: if l.r == v { CPc::Idle } else { CPc::GotW }, w: v, ..l }),
        (CPc::GotW, Op::ReadCell { idx, val }) => if idx == l.r % (cap as u64) { Some(CLoc { pc: CPc::Read, val, ..l }) } else { None },
        (CPc::Read, Op::StoreR { v }) => if v == l.r + 1 { Some(CLoc { pc: CPc::Idle, ..l }) } else { None },
        _ => None,
    }
}
pub open spec fn prun<T>(l: PLoc<T>, steps: Seq<Op<T>>, cap: usize) -> Option<PLoc<T>> decreases steps.len() {
    if steps.len() == 0 { Some(l) } else { match pedge(l, steps[0], cap) { None => None, Some(l2) => prun(l2, steps.skip(1), cap) } }
}
pub open spec fn crun<T>(l: CLoc<T>, steps: Seq<Op<T>>, cap: usize) -> Option<CLoc<T>> decreases steps.len() {
    if steps.len() == 0 { Some(l) } else { match cedge(l, steps[0], cap) { None => None, Some(l2) => crun(l2, steps.skip(1), cap) } }
}
pub open spec fn extends<T>(o: Seq<Op<T>>, n: Seq<Op<T>>) -> bool { o.len() <= n.len() && forall|i: int| 0 <= i < o.len() ==> n[i] == o[i] }
pub open spec fn appended<T>(o: Seq<Op<T>>, n: Seq<Op<T>>) -> Seq<Op<T>> { n.subrange(o.len() as int, n.len() as int) }
/// accesses of ONE push(value) call (pointwise form; a path of the producer automaton by lemma_push_run_is_path)
pub open spec fn push_run<T>(o: Seq<Op<T>>, n: Seq<Op<T>>, cap: usize, value: T, ret: bool) -> bool {
    let k = o.len() as int;
    extends(o, n) && n.len() >= k + 2 && (n[k] matches Op::LoadW { v: w } && n[k + 1] matches Op::LoadR { v: r } && {
        ||| n.len() == k + 2 && w == r + cap && !ret
        ||| n.len() == k + 4 && w != r + cap && n[k + 2] == (Op::WriteCell { idx: (w % (cap as u64)) as usize, val: value })
                && n[k + 3] == (Op::StoreW { v: (w + 1) as u64 }) && ret
    })
}
pub open spec fn pop_run<T>(o: Seq<Op<T>>, n: Seq<Op<T>>, cap: usize, ret: Option<T>) -> bool {
    let k = o.len() as int;
    extends(o, n) && n.len() >= k + 2 && (n[k] matches Op::LoadR { v: r } && n[k + 1] matches Op::LoadW { v: w } && {
        ||| n.len() == k + 2 && r == w && ret is None
        ||| n.len() == k + 4 && r != w && (n[k + 2] matches Op::ReadCell { idx, val } && idx == (r % (cap as u64)) as usize && ret == Some(val))
                && n[k + 3] == (Op::StoreR { v: (r + 1) as u64 })
    })
}
pub proof fn lemma_push_run_is_path<T>(o: Seq<Op<T>>, n: Seq<Op<T>>, cap: usize, value: T, ret: bool, l: PLoc<T>)
    requires push_run(o, n, cap, value, ret), l.pc is Idle, l.val == value, cap >= 1,
        n[o.len() as int] matches Op::LoadW { v } && v < u64::MAX,
    ensures prun(l, appended(o, n), cap) matches Some(l2) && l2.pc is Idle, n == o + appended(o, n),
{
    reveal_with_fuel(prun, 6);
    let s = appended(o, n);
    assert(n =~= o + s);
    let s1 = s.skip(1); let s2 = s1.skip(1); assert(s1[0] == s[1]);
    if s.len() >= 4 { let s3 = s2.skip(1); let s4 = s3.skip(1); assert(s2[0] == s[2]); assert(s3[0] == s[3]); assert(s4.len() == 0); }
}
pub proof fn lemma_pop_run_is_path<T>(o: Seq<Op<T>>, n: Seq<Op<T>>, cap: usize, ret: Option<T>, l: CLoc<T>)
    requires pop_run(o, n, cap, ret), l.pc is Idle, cap >= 1,
        n[o.len() as int] matches Op::LoadR { v } && v < u64::MAX,
    ensures crun(l, appended(o, n), cap) matches Some(l2) && l2.pc is Idle && (ret matches Some(v) ==> l2.val == v), n == o + appended(o, n),
{
    reveal_with_fuel(crun, 6);
    let s = appended(o, n);
    assert(n =~= o + s);
    let s1 = s.skip(1); let s2 = s1.skip(1); assert(s1[0] == s[1]);
    if s.len() >= 4 { let s3 = s2.skip(1); let s4 = s3.skip(1); assert(s2[0] == s[2]); assert(s3[0] == s[3]); assert(s4.len() == 0); }
}

// ------------------------------------------------------------------------------------------------ global system
// One producer and one consumer take steps of `pedge` / `cedge` in ANY order on a sequentially consistent memory
// {w, r, cells}; a load returns the current value.  `pushed` / `popped` are the histories of successful calls.
pub struct G<T> {
    pub cap: usize, pub w: u64, pub r: u64, pub cells: Seq<T>,
    pub pushed: Seq<T>, pub popped: Seq<T>,
    pub p: PLoc<T>, pub c: CLoc<T>,
}
pub open spec fn init<T>(g: G<T>) -> bool {
    g.cap >= 1 && g.w == 0 && g.r == 0 && g.cells.len() == g.cap && g.pushed.len() == 0 && g.popped.len() == 0 && g.p.pc is Idle && g.c.pc is Idle
}
/// the producer performs access `op` (a new push call starts at Idle with an arbitrary argument `val`)
pub open spec fn p_step<T>(g: G<T>, op: Op<T>, val: T, h: G<T>) -> bool {
    let l = if g.p.pc is Idle { PLoc { val, ..g.p } } else { g.p };
    match pedge(l, op, g.cap) {
        None => false,
        Some(l2) => h.p == l2 && h.c == g.c && h.cap == g.cap && h.r == g.r && h.popped == g.popped && match op {
            Op::LoadW { v } => v == g.w && h.w == g.w && h.cells == g.cells && h.pushed == g.pushed,
            Op::LoadR { v } => v == g.r && h.w == g.w && h.cells == g.cells && h.pushed == g.pushed,
            Op::WriteCell { idx, val } => idx < g.cells.len() && h.w == g.w && h.cells == g.cells.update(idx as int, val) && h.pushed == g.pushed,
            Op::StoreW { v } => h.w == v && h.cells == g.cells && h.pushed == g.pushed.push(l.val),
            _ => false,
        },
    }
}
pub open spec fn c_step<T>(g: G<T>, op: Op<T>, h: G<T>) -> bool {
    match cedge(g.c, op, g.cap) {
        None => false,
        Some(l2) => h.c == l2 && h.p == g.p && h.cap == g.cap && h.w == g.w && h.pushed == g.pushed && h.cells == g.cells && match op {
            Op::LoadR { v } => v == g.r && h.r == g.r && h.popped == g.popped,
            Op::LoadW { v } => v == g.w && h.r == g.r && h.popped == g.popped,
            Op::ReadCell { idx, val } => idx < g.cells.len() && val == g.cells[idx as int] && h.r == g.r && h.popped == g.popped,
            Op::StoreR { v } => h.r == v && h.popped == g.popped.push(g.c.val),
            _ => false,
        },
    }
}
pub open spec fn next<T>(g: G<T>, h: G<T>) -> bool {
    ||| exists|op: Op<T>, val: T| p_step(g, op, val, h)
    ||| exists|op: Op<T>| c_step(g, op, h)
}
pub open spec fn inv<T>(g: G<T>) -> bool {
    &&& g.cap >= 1 && g.cells.len() == g.cap
    &&& g.r <= g.w <= g.r + g.cap && g.w < 0x8000_0000_0000_0000     // A-mach: reachable positions stay below 2^63
    &&& g.pushed.len() == g.w && g.popped.len() == g.r
    // every value still to be read is in its cell
    &&& forall|i: int| g.r <= i < g.w ==> g.cells[i % (g.cap as int)] == #[trigger] g.pushed[i]
    // FIFO, exactly once: the pops so far are exactly the first r pushes, in order
    &&& forall|i: int| 0 <= i < g.r ==> #[trigger] g.popped[i] == g.pushed[i]
    // producer locals
    &&& (!(g.p.pc is Idle) ==> g.p.w == g.w)
    &&& (g.p.pc is GotR || g.p.pc is Wrote ==> g.p.r <= g.r && g.p.w < g.p.r + g.cap)
    &&& (g.p.pc is Wrote ==> g.cells[(g.w as int) % (g.cap as int)] == g.p.val)
    // consumer locals
    &&& (!(g.c.pc is Idle) ==> g.c.r == g.r)
    &&& (g.c.pc is GotW || g.c.pc is Read ==> g.c.r < g.c.w <= g.w)
    &&& (g.c.pc is Read ==> g.c.val == g.pushed[g.r as int])
}
pub proof fn lemma_init_inv<T>(g: G<T>) requires init(g) ensures inv(g) {}

proof fn lemma_p_step<T>(g: G<T>, op: Op<T>, val: T, h: G<T>)
    requires inv(g), p_step(g, op, val, h), h.w < 0x8000_0000_0000_0000
    ensures inv(h)
{
    let c = g.cap as int;
    match op {
        Op::WriteCell { idx, val } => {
            // the written cell is none of the cells still to be read: r <= i < w < r + cap
            assert forall|i: int| h.r <= i < h.w implies h.cells[i % c] == #[trigger] h.pushed[i] by {
                lemma_idx_distinct(i, g.w as int, c);
            }
            assert(g.w % (g.cap as u64) == (g.w as int) % c);
        },
        Op::StoreW { v } => {
            assert(g.w % (g.cap as u64) == (g.w as int) % c);
            assert forall|i: int| h.r <= i < h.w implies h.cells[i % c] == #[trigger] h.pushed[i] by {
                if i < g.w { assert(g.pushed[i] == h.pushed[i]); }
            }
            assert forall|i: int| 0 <= i < h.r implies #[trigger] h.popped[i] == h.pushed[i] by { assert(g.pushed[i] == h.pushed[i]); }
        },
        _ => {},
    }
}
proof fn lemma_idx_distinct(i: int, w: int, c: int)
    requires 0 <= i < w < i + c, c > 0
    ensures i % c != w % c, 0 <= i % c < c, 0 <= w % c < c
{}
proof fn lemma_c_step<T>(g: G<T>, op: Op<T>, h: G<T>)
    requires inv(g), c_step(g, op, h)
    ensures inv(h)
{
    let c = g.cap as int;
    match op {
        Op::ReadCell { idx, val } => {
            assert(g.r % (g.cap as u64) == (g.r as int) % c);
            assert(g.cells[(g.r as int) % c] == g.pushed[g.r as int]);
        },
        Op::StoreR { v } => {
            assert forall|i: int| 0 <= i < h.r implies #[trigger] h.popped[i] == h.pushed[i] by {
                if i < g.r { assert(g.popped[i] == h.popped[i]); }
            }
        },
        _ => {},
    }
}
/// inductiveness (the machine bound on the write position is an assumption on the step, A-mach)
pub proof fn lemma_inv_inductive<T>(g: G<T>, h: G<T>)
    requires inv(g), next(g, h), h.w < 0x8000_0000_0000_0000
    ensures inv(h)
{
    if exists|op: Op<T>, val: T| p_step(g, op, val, h) {
        let (op, val) = choose|op: Op<T>, val: T| p_step(g, op, val, h);
        lemma_p_step(g, op, val, h);
    } else {
        let op = choose|op: Op<T>| c_step(g, op, h);
        lemma_c_step(g, op, h);
    }
}
/// THE PROPERTY, read off the invariant: what has been popped is exactly the beginning of what has been pushed
/// (in order, nothing lost, nothing twice, nothing invented), and at most `capacity` values are in flight
pub proof fn lemma_inv_gives_fifo<T>(g: G<T>)
    requires inv(g)
    ensures g.popped =~= g.pushed.subrange(0, g.r as int), g.pushed.len() - g.popped.len() <= g.cap,
{}
// ---- end prelude/proto_spsc.rs ----
