// ---- prelude/model_metaqueue.rs: ring-buffer model of MetaQueue<T> (units metaqueue, pub-history) ----
pub mod lemmas {
use vstd::prelude::*;
pub broadcast proof fn lemma_ring_distinct(a: int, b: int, c: int)
    requires 0 <= a < b < a + c, c > 0
    ensures #[trigger] (a % c) != #[trigger] (b % c)
{
    if a % c == b % c {
        vstd::arithmetic::div_mod::lemma_fundamental_div_mod(a, c);
        vstd::arithmetic::div_mod::lemma_fundamental_div_mod(b, c);
        let qa = a / c; let qb = b / c;
        assert(b - a == c * (qb - qa)) by (nonlinear_arith) requires a == c * qa + a % c, b == c * qb + b % c, a % c == b % c;
        assert(false) by (nonlinear_arith) requires b - a == c * (qb - qa), 0 < b - a < c, c > 0;
    }
}
pub broadcast proof fn lemma_mod_range(a: int, c: int)
    requires c > 0
    ensures 0 <= #[trigger] (a % c) < c
{ vstd::arithmetic::div_mod::lemma_mod_bound(a, c); }
}
broadcast use {lemmas::lemma_ring_distinct, lemmas::lemma_mod_range};

pub struct MetaQueue<T> {
    pub cells: Ghost<Seq<Option<T>>>,     // the capacity MaybeUninit<T> slots behind data_ptr; None = uninitialised (A-shim)
    pub start: usize,
    pub len: usize,
    pub capacity: usize,
}

impl<T> MetaQueue<T> {
    pub open spec fn wf(&self) -> bool {
        &&& self.cells@.len() == self.capacity
        &&& self.len <= self.capacity && self.len <= self.start
        // exactly the slots of the stored positions [start - len, start) are occupied
        &&& forall|p: int| self.start - self.len <= p < self.start ==> self.cells@[#[trigger] (p % (self.capacity as int))] is Some
        &&& forall|k: int| 0 <= k < self.capacity
                && (forall|p: int| self.start - self.len <= p < self.start ==> #[trigger] (p % (self.capacity as int)) != k)
                ==> (#[trigger] self.cells@[k]) is None
    }
    /// content, oldest first
    pub open spec fn view(&self) -> Seq<T> {
        Seq::new(self.len as nat, |i: int| self.cells@[(self.start - self.len + i) % (self.capacity as int)]->0)
    }
    /// A-mach: the monotonically growing cursor stays below usize::MAX
    pub open spec fn mach(&self) -> bool { self.start < usize::MAX }

    /// `core::mem::replace(&mut *ptr.add(i), MaybeUninit::uninit()).assume_init()`: the slot must hold an element
    #[verifier::external_body]
    pub fn cell_take(&mut self, i: usize) -> (r: T)
        requires i < old(self).cells@.len(), old(self).cells@[i as int] is Some
        ensures r == old(self).cells@[i as int]->0, final(self).cells@ == old(self).cells@.update(i as int, None),
            final(self).start == old(self).start, final(self).len == old(self).len, final(self).capacity == old(self).capacity,
    { unimplemented!() }
    /// `ptr.add(i).write(MaybeUninit::new(v))`: the slot must be vacant (writing over an element would leak it un-dropped)
    #[verifier::external_body]
    pub fn cell_put(&mut self, i: usize, v: T)
        requires i < old(self).cells@.len(), old(self).cells@[i as int] is None
        ensures final(self).cells@ == old(self).cells@.update(i as int, Some(v)),
            final(self).start == old(self).start, final(self).len == old(self).len, final(self).capacity == old(self).capacity,
    { unimplemented!() }
    /// `(*ptr.add(i)).assume_init_ref()`
    #[verifier::external_body]
    pub fn cell_ref(&self, i: usize) -> (r: &T)
        requires i < self.cells@.len(), self.cells@[i as int] is Some
        ensures *r == self.cells@[i as int]->0
    { unimplemented!() }
}
// ---- end prelude/model_metaqueue.rs ----
