// ---- prelude/ring_lemmas.rs ----
pub mod lemmas {
use vstd::prelude::*;
pub broadcast proof fn lemma_ring_distinct(a: int, b: int, c: int)
    requires 0 <= a < b < a + c, c > 0
    ensures #[trigger] (a % c) != #[trigger] (b % c)
{
    if a % c == b % c {
        vstd::arithmetic::div_mod::lemma_fundamental_div_mod(a, c);
        vstd::arithmetic::div_mod::lemma_fundamental_div_mod(b, c);
        let qa = a / c; let qb = b / c;
        assert(b - a == c * (qb - qa)) by (nonlinear_arith) requires a == c * qa + a % c, b == c * qb + b % c, a % c == b % c;
        assert(false) by (nonlinear_arith) requires b - a == c * (qb - qa), 0 < b - a < c, c > 0;
    }
}
pub broadcast proof fn lemma_mod_range(a: int, c: int)
    requires c > 0
    ensures 0 <= #[trigger] (a % c) < c
{
    vstd::arithmetic::div_mod::lemma_mod_bound(a, c);
}
}
// ---- end prelude/ring_lemmas.rs ----
