// ---- prelude/model_ucl.rs: state model shared by the unit that proves the contracts and the units that compose them ----
pub struct UsedChunkList {
    pub flags: Vec<AtomicBool>,       // the capacity AtomicBool cells behind data_ptr (A-shim)
    pub capacity: usize,
}
impl UsedChunkList {
    pub open spec fn wf(&self) -> bool { self.flags@.len() == self.capacity }
    /// the set of chunk indices currently owned by the receiver side
    /// view[i] == true  <=>  chunk index i is in the set
    pub open spec fn view(&self) -> Seq<bool> { Seq::new(self.flags@.len(), |i: int| self.flags@[i].v) }
    /// `(*self.data_ptr.as_ptr().add(idx)).swap(value, ..)` of the real code; in-bounds is an OBLIGATION
    pub fn flag_swap(&mut self, idx: usize, value: bool, o: Ordering) -> (r: bool)
        requires idx < old(self).flags@.len()
        ensures r == old(self).flags@[idx as int].v, final(self).flags@.len() == old(self).flags@.len(),
            final(self).flags@[idx as int].v == value, final(self).capacity == old(self).capacity,
            forall|j: int| 0 <= j < old(self).flags@.len() && j != idx ==> final(self).flags@[j] == old(self).flags@[j],
    { self.flags[idx].swap(value, o) }
}
// ---- end prelude/model_ucl.rs ----
