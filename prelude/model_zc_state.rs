// ---- prelude/model_zc_state.rs: state model of the connection state byte (units zc-state, zc-open) ----
//@item file=iceoryx2-cal/src/zero_copy_connection/mod.rs | item=enum ZeroCopyCreationError | prefix=#[derive(Clone, Copy, PartialEq, Eq, Structural)]

//@item file=iceoryx2-cal/src/zero_copy_connection/common.rs | scope=mod details | item=enum State | prefix=#[derive(Clone, Copy, PartialEq, Eq)] #[repr(u8)]

pub const NONE: u8 = 0;
pub const SENDER: u8 = 1;
pub const RECEIVER: u8 = 2;
pub const MARKED: u8 = 128;

pub open spec fn state_value(s: State) -> u8 {
    match s { State::None => NONE, State::Sender => SENDER, State::Receiver => RECEIVER, State::MarkedForDestruction => MARKED }
}
pub open spec fn is_role(v: u8) -> bool { v == SENDER || v == RECEIVER }

// ---- the transition relations: these very predicates are the `ensures` of the extracted functions AND the steps of
// ---- the protocol lemmas below (single source of truth)
/// attach: observed c has neither the role bit nor the destruction mark; writes c | role
pub open spec fn reserve_step(c: u8, n: u8, role: u8) -> bool {
    c & role == 0 && c & MARKED == 0 && n == c | role
}
/// detach: last one (c == role) marks for destruction, otherwise the role bit is cleared
pub open spec fn remove_step(c: u8, n: u8, role: u8) -> bool {
    n == (if c == role { MARKED } else { c & !role })
}

/// this call performed exactly one read-modify-write on the state byte
pub open spec fn one_rmw(o: Seq<(u8, u8)>, n: Seq<(u8, u8)>) -> bool { n.len() == o.len() + 1 && n.drop_last() == o }

impl State {
//@fn file=iceoryx2-cal/src/zero_copy_connection/common.rs | scope=mod details ;; impl State | item=value
//@ spec
    ensures r == state_value(*self),
//@end
}

/// queue header as far as create_or_open_shm looks at it
pub struct QueueCap { pub capacity: usize }
impl QueueCap { pub fn capacity(&self) -> (r: usize) ensures r == self.capacity { self.capacity } }
pub struct Channel { pub submission_queue: QueueCap, pub completion_queue: QueueCap }
pub struct SharedManagementData {
    pub state: IAtomicU8,
    pub channels: Vec<Channel>,
    pub enable_safe_overflow: bool,
    pub number_of_samples_per_segment: usize,
    pub number_of_segments: u8,
}
impl SharedManagementData {
    /// frame: everything except the state byte is untouched
    pub open spec fn same_config(&self, o: &SharedManagementData) -> bool {
        self.channels == o.channels && self.enable_safe_overflow == o.enable_safe_overflow
        && self.number_of_samples_per_segment == o.number_of_samples_per_segment && self.number_of_segments == o.number_of_segments
    }
}

// Storage shim: `get()` hands out the management data, `acquire_ownership` is recorded (A-os: the real DynamicStorage)
pub struct StorageShim { pub mgmt: SharedManagementData, pub ownership_acquired: Ghost<nat>, pub owned: bool }
impl StorageShim {
    pub fn get(&mut self) -> (r: &mut SharedManagementData)
        ensures *r == old(self).mgmt, final(self).mgmt == *final(r), final(self).ownership_acquired == old(self).ownership_acquired,
            final(self).owned == old(self).owned,
    { &mut self.mgmt }
    pub fn has_ownership(&self) -> (r: bool) ensures r == self.owned { self.owned }
    #[verifier::external_body]
    pub fn release_ownership(&mut self)
        ensures final(self).mgmt == old(self).mgmt, final(self).ownership_acquired == old(self).ownership_acquired, !final(self).owned
    { unimplemented!() }
    #[verifier::external_body]
    pub fn acquire_ownership(&mut self)
        ensures final(self).mgmt == old(self).mgmt, final(self).ownership_acquired@ == old(self).ownership_acquired@ + 1, final(self).owned
    { unimplemented!() }
}

// ---- end prelude/model_zc_state.rs ----
