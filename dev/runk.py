import sys, json, time
sys.path.insert(0,'/verif/engine')
import kx
unit=sys.argv[1]
only=sys.argv[2:] 
s=kx.Scratch(kx.REPO)
try:
    cfg=json.load(open('/verif/units/%s/unit.json'%unit))
    s.inject_unit('/verif/units/%s'%unit,cfg)
    hs=[h['name'] for h in cfg['harnesses'] if not only or any(o in h['name'] for o in only)]
    r=kx.run_crate(s,cfg['crate'],hs,jobs=8)
    open('/tmp/kani_%s.out'%unit,'w').write(r['out'])
    print(r['rc'],round(r['wall_s'],1))
    res=kx.parse_kani_output(r['out'])
    for h in cfg['harnesses']:
        if h['name'] not in hs: continue
        hr=res.get(h['name'])
        print(h['name'], hr and (hr['status'],hr['time_s'],hr['covers_sat'],hr['covers_total'],hr['failed_checks']), kx.classify(cfg,h,hr))
finally:
    s.cleanup()
