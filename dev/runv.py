import sys; sys.path.insert(0,'/verif/engine')
import vx, json, os
os.makedirs('/tmp/vxw',exist_ok=True)
r=vx.run_unit('/verif/units/'+sys.argv[1],'/tmp/vxw', repo=os.environ.get('VERIF_REPO','/repo'))
print(r['status'], r.get('reason','')[:5000])
for f in r['failures']: print('--', f['fn_name'], f['obligation']); print(f['detail'][:1500])
print([ (f['name'],f['discharged']) for f in r['functions']], r.get('vacuity'), 'wall', r.get('wall_s'))
