#!/bin/bash
unit=$1; file=$2; old=$3; new=$4
rsync -a --delete --exclude /target --exclude .git --exclude /iceoryx2-cxx --exclude /doc /repo/ /tmp/mrepo/
python3 - "$file" "$old" "$new" <<'PY'
import sys
f,old,new=sys.argv[1:4]
s=open('/repo/'+f).read()
assert s.count(old)>=1, 'pattern not found'
s=s.replace(old,new,1)
open('/tmp/mrepo/'+f,'w').write(s)
PY
VERIF_REPO=/tmp/mrepo python3 /tmp/runv.py $unit 2>&1 | grep -v '^\s*|\|^\s*$' | head -${5:-14}
