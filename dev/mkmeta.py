#!/usr/bin/env python3
"""mkmeta.py <seed-id> <what> <needs> : writes seeded/<id>/meta.json from README.md + confirm.log"""
import json, os, re, sys
sid, what, needs = sys.argv[1], sys.argv[2], sys.argv[3]
d = os.path.join('/verif/seeded', sid)
patch = open(os.path.join(d, 'patch.diff')).read()
files = sorted(set(re.findall(r'^\+\+\+ b/(\S+)', patch, flags=re.M)))
conf = open(os.path.join(d, 'confirm.log')).read().strip().split('\n')[-1]
json.dump({
    'id': sid, 'property': sid.split('-')[0], 'files_changed': files, 'what': what, 'needs_to_manifest': needs,
    'origin': 'written by an independent sub-agent that saw only the property text and its own scratch worktree (nothing from /verif)',
    'confirmed_by_me': {'how': 'bin/confirm_seed in the scratch worktree: demo passes on the unchanged code, the existing tests of the touched crate(s) pass with the change, the demo fails with the change', 'result': conf},
    'demonstration': 'demo.rs (placement and test target are given at its top and in README.md)'}, open(os.path.join(d, 'meta.json'), 'w'), indent=1)
print('ok', sid, conf)
