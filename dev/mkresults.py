#!/usr/bin/env python3
"""mkresults.py: appends a table to seeded/RESULTS.md from the detection.json files written by bin/seedsweep
(used when a sweep was run in several parts / interrupted)."""
import json, os, re, time
V = os.path.dirname(os.path.dirname(os.path.abspath(__file__)))
rows = []
for s in sorted(os.listdir(os.path.join(V, 'seeded'))):
    f = os.path.join(V, 'seeded', s, 'detection.json')
    if re.match(r'C\d\d-\d+$', s) and os.path.exists(f):
        r = json.load(open(f)); r['mtime'] = time.strftime('%m-%d %H:%M', time.localtime(os.path.getmtime(f))); rows.append(r)
with open(os.path.join(V, 'seeded', 'RESULTS.md'), 'a') as f:
    f.write('\n## collected %s from seeded/*/detection.json (latest sweep result per seed)\n\n| seed | property | tier | result | failing obligations (unit-function) | undecided units | swept |\n|---|---|---|---|---|---|---|\n' % time.strftime('%Y-%m-%d %H:%M'))
    for r in rows:
        f.write('| %s | %s | %s | %s | %s | %s | %s |\n' % (r['seed'], r['property'], r.get('tier', ''), r['result'], ', '.join(r.get('violations', [])[:4]), ', '.join(r.get('undecided_units', [])), r['mtime']))
print(len(rows), 'rows;', sum(1 for r in rows if r['result'] == 'DETECTED'), 'detected;', [r['seed'] for r in rows if r['result'] != 'DETECTED'])
