#!/bin/bash
# mutp.sh <patch> <unit>... : run V units against /repo + patch (mirror in /tmp/mrepo)
patch=$1; shift
rsync -a --delete --exclude /target --exclude .git --exclude /iceoryx2-cxx --exclude /doc /repo/ /tmp/mrepo/
(cd /tmp/mrepo && patch -p1 -s < $patch) || { echo PATCH FAILED; exit 2; }
for u in "$@"; do echo "== $u"; VERIF_REPO=/tmp/mrepo python3 /tmp/runv.py $u 2>&1 | grep -v '^\s*[0-9]* |\|^\s*|\|^$\|^\.\.\.' | head -8; done
