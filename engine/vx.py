"""Engine V: mechanical extraction of real function bodies from /repo into one Verus file per unit.

Template language (units/<unit>/unit.vrs).  Everything that is not a directive is copied verbatim.

  //@macros                         emit fail!/fatal_panic!/... generated from iceoryx2-log of the current tree
  //@include <path under /verif>    verbatim include
  //@item file=F | scope=A ;; B | item=enum State [| strip=derive] [| rw N RE  =>  REPL]
                                    verbatim copy of a struct / enum / const (attributes and doc comments dropped,
                                    visibility widened to pub)
  //@fn file=F | scope=A ;; B | item=push [| recv=mut] [| ret=r] [| as=newname] [| novac]
  //@ sig N RE  =>  REPL            rewrite applied to the signature (expected match count N)
  //@ rw N RE  =>  REPL             rewrite applied to the body (expected match count N, else exit 2)
  //@ spec                          following lines: requires/ensures/decreases spliced after the signature
  //@ loop K                        following lines: invariant/ensures/decreases spliced after the K-th loop header
  //@ forghost K NAME               `for x in e` of loop K becomes `for x in NAME: e`
  //@end

Global normalisations applied to every extracted fn (reported verbatim in evidence):
see NORMALISATIONS below.
"""
import json
import os
import re
import subprocess
import time

import rsrc

VERIF = os.path.dirname(os.path.dirname(os.path.abspath(__file__)))
REPO = os.environ.get('VERIF_REPO', '/repo')

NORMALISATIONS = [
    'doc comments and attributes in front of the extracted item are dropped',
    'visibility is widened to `pub`',
    '`&self` becomes `&mut self` when the unit says recv=mut (interior mutability made explicit)',
    'the return type `-> T` is named `-> (r: T)` so the contract can refer to it',
    '`debug_assert!(e)` / `debug_assert!(e, msg..)` become `{ let c: bool = e; assert(c); }` -- a Verus proof OBLIGATION (the code\'s own internal assumptions are proved, not assumed)',
    '`self.verify_init(..)` statements are dropped (flag is part of wf)',
    'logging macros fail!/fatal_panic!/warn!/error!/debug!/trace!/info! are regenerated from '
    'iceoryx2-log/log/src/{fail,log}.rs of the current tree with the logging statements deleted '
    '(control flow kept; message arguments not evaluated)',
    '`match E { b".." => X, .., _ => Z }` on a slice becomes an if / else-if chain generated from the literals',
    '`matches!(E, b".." | b"..")` on a slice is expanded to length + element comparisons generated from the literals (Verus mis-encodes byte-string patterns)',
    'a `const NAME: T = e;` item inside a function body becomes `let NAME: T = e;` (Verus gives body-local consts spec mode)',
    '`//@ drops VAR => CALL`: the implicit drop of local VAR is made explicit (CALL inserted before every continue / break / return of its block that does not move VAR, and at the block end)',
    '`//@ inline NAME`: a parameterless non-escaping local closure is inlined at its call sites (calls must be in return position, or of the form `NAME()?` when the closure leaves early only through `?` / fail!, when the closure can leave early; not inside loops / other closures)',
    'comments inside extracted bodies are removed before the rewrites are applied; an escaped dot in a rewrite regex matches with white space around it (rustfmt line wrapping); an invariant written for a loop that no longer exists is skipped (recorded)',
    'the per-unit rewrite table (regex => replacement with expected match count) listed under rewrites',
]


class Undecided(Exception):
    """Anchor loss / rewrite-count mismatch / tool problem: exit 2, never a VIOLATION."""


def gen_macros(repo):
    """fail! macro of the current tree with the debug!(..) statement of each arm deleted."""
    p = os.path.join(repo, 'iceoryx2-log/log/src/fail.rs')
    text = open(p).read()
    it = rsrc.find_item(text, [], 'macro fail')
    src = it.full
    n_arms = len(re.findall(r'=>\s*\{', rsrc.mask(src)))
    src2, n = re.subn(r'(?m)^[ \t]*debug!\(.*\);[ \t]*\n', '', src)
    if n == 0:
        raise Undecided('fail.rs: no debug! statement found to delete (macro shape changed)')
    out = ['// generated from iceoryx2-log/log/src/fail.rs: %d debug!(..) statements deleted' % n,
           src2,
           _gen_fatal_panic(repo),
           'macro_rules! warn { ($($t:tt)*) => { () } }',
           'macro_rules! error { ($($t:tt)*) => { () } }',
           'macro_rules! debug { ($($t:tt)*) => { () } }',
           'macro_rules! trace { ($($t:tt)*) => { () } }',
           'macro_rules! info { ($($t:tt)*) => { () } }',
           ]
    return '\n'.join(out) + '\n'


def _gen_fatal_panic(repo):
    """fatal_panic! of the current tree: the logger call of each arm is deleted and `core::panic!(..)` becomes a call of the
    prelude fn `verif_fatal_panic()` (requires false): reaching it is an obligation failure; the `when $call` arm still
    evaluates the call and yields its Ok value."""
    p = os.path.join(repo, 'iceoryx2-log/log/src/log.rs')
    text = open(p).read()
    it = rsrc.find_item(text, [], 'macro fatal_panic')
    src = it.full
    src, n1 = re.subn(r'(?m)^[ \t]*\$crate::__internal_print_log_msg\(.*\);[ \t]*\n', '', src)
    src, n2 = re.subn(r'core::panic!\([^;]*\);', 'crate::verif_fatal_panic();', src)
    if n1 == 0 or n2 == 0:
        raise Undecided('log.rs: fatal_panic! macro shape changed (%d logger calls, %d panics)' % (n1, n2))
    return '// generated from iceoryx2-log/log/src/log.rs: %d logger calls deleted, %d panics routed to verif_fatal_panic()\n%s' % (n1, n2, src)


def _kv(line):
    parts = [p.strip() for p in line.split(' | ')]
    d = {'flags': []}
    for p in parts:
        if '=' in p and not p.startswith('rw '):
            k, v = p.split('=', 1)
            d[k.strip()] = v.strip()
        elif p:
            d['flags'].append(p)
    return d


def _parse_rw(rest):
    m = re.match(r'(\d+|\*)\s+(.*?)\s+=>(?:\s\s?(.*))?$', rest)
    if not m:
        raise Undecided('bad rewrite directive: %r' % rest)
    rx = m.group(2)
    # rustfmt may wrap a method chain at any `.`: an escaped dot in a rewrite regex tolerates white space around it
    rx = re.sub(r'(?:\\s\*)?\\\.(?:\\s\*)?', r'\\s*\\.\\s*', rx)
    return (-1 if m.group(1) == '*' else int(m.group(1))), rx, m.group(3) or ''


def _apply_rw(text, rules, what, log):
    for (cnt, rx, repl) in rules:
        try:
            text, n = re.subn(rx, repl, text, flags=re.S)
        except re.error as e:
            raise Undecided('bad rewrite regex %r => %r: %s' % (rx, repl, e))
        log.append({'in': what, 'regex': rx, 'replacement': repl, 'expected': cnt, 'matched': n})
        if cnt >= 0 and n != cnt:
            raise Undecided('rewrite %r in %s matched %d times, expected %d' % (rx, what, n, cnt))
    return text


def _split_debug_assert(body):
    """debug_assert!(e [, msg...]) -> assert(e);  handled with bracket matching on masked text."""
    out = []
    i = 0
    m = rsrc.mask(body)
    for mm in re.finditer(r'\bdebug_assert!\s*\(', m):
        if mm.start() < i:
            continue
        out.append(body[i:mm.start()])
        o = mm.end() - 1
        e = rsrc.match_close(m, o)
        inner = body[o + 1:e - 1]
        minner = m[o + 1:e - 1]
        # cut at first top-level comma
        depth = 0
        cut = len(inner)
        for k, c in enumerate(minner):
            if c in '([{':
                depth += 1
            elif c in ')]}':
                depth -= 1
            elif c == ',' and depth == 0:
                cut = k
                break
        out.append('{ let verif_debug_assert_cond: bool = ' + inner[:cut].strip() + '; assert(verif_debug_assert_cond); }')
        i = e
    out.append(body[i:])
    return ''.join(out)


def _bytes_of_literal(lit):
    """b"..." literal text -> list of byte values (simple escapes only)."""
    body = lit[2:-1]
    out = []
    i = 0
    while i < len(body):
        c = body[i]
        if c == '\\':
            n = body[i + 1]
            if n == 'x':
                out.append(int(body[i + 2:i + 4], 16)); i += 4; continue
            out.append({'n': 10, 'r': 13, 't': 9, '0': 0, '\\': 92, '"': 34, "'": 39}[n]); i += 2; continue
        out.append(ord(c)); i += 1
    return out


def _expand_bytes_matches(body):
    """matches!(E, b"a" | b"bc") -> ((E.len() == 1 && E[0] == 97u8) || (E.len() == 2 && ...)): Verus mis-encodes byte-string
    literal patterns against slices (ill-typed AIR), so the pattern is expanded mechanically from the literals themselves."""
    rx = re.compile(r'matches!\(\s*(\w+)\s*,\s*((?:b"(?:[^"\\\\]|\\\\.)*"\s*\|?\s*)+)\)')
    def rep(mm):
        e = mm.group(1)
        lits = re.findall(r'b"(?:[^"\\]|\\.)*"', mm.group(2))
        alts = []
        for l in lits:
            bs = _bytes_of_literal(l)
            alts.append('(' + ' && '.join(['%s.len() == %d' % (e, len(bs))] + ['%s[%d] == %du8' % (e, k, b) for k, b in enumerate(bs)]) + ')')
        return '(' + ' || '.join(alts) + ')'
    return rx.sub(rep, body)


def _explicit_drops(body, var, call, label, log):
    """`//@ drops VAR => CALL;`: the local VAR has drop glue that matters for the contract (Verus does not model implicit
    drops).  For every `let [mut] VAR = ..;` the drop is made explicit: CALL is inserted in front of every `continue` / `break`
    / `return` statement of the binding's block that comes after the binding and does not mention VAR (a statement that
    mentions it moves it out), and at the end of that block unless its last statement is such an exit or mentions VAR.
    A `?` after the binding inside that block cannot be elaborated this way -> Undecided."""
    m = rsrc.mask(body)
    inserts = []
    nbind = 0
    for mm in re.finditer(r'\blet\s+(?:mut\s+)?%s\b' % re.escape(var), m):
        nbind += 1
        # end of the binding statement
        e = mm.end()
        depth = 0
        while e < len(m):
            c = m[e]
            if c in '([{':
                depth += 1
            elif c in ')]}':
                depth -= 1
            elif c == ';' and depth == 0:
                break
            e += 1
        e += 1
        # enclosing block: scan back for the unmatched '{'
        b = mm.start()
        depth = 0
        while b >= 0:
            c = m[b]
            if c == '}':
                depth += 1
            elif c == '{':
                if depth == 0:
                    break
                depth -= 1
            b -= 1
        if b < 0:
            raise Undecided('%s: drops %s: no enclosing block' % (label, var))
        end = rsrc.match_close(m, b) - 1          # position of the closing brace
        scope = m[e:end]
        if '?' in scope:
            raise Undecided('%s: drops %s: a `?` follows the binding inside its block' % (label, var))
        last_stmt_is_exit = False
        for ex in re.finditer(r'\b(continue|break|return)\b', scope):
            q = e + ex.start()
            se = m.find(';', q)
            stmt = m[q:se if se >= 0 else end]
            if not re.search(r'\b%s\b' % re.escape(var), stmt):
                inserts.append(q)
        tail = scope.rstrip()
        # the last statement of the block
        k = max(tail.rfind(';', 0, len(tail) - 1), tail.rfind('}', 0, len(tail) - 1), tail.rfind('{', 0, len(tail) - 1))
        last = tail[k + 1:] if tail.endswith(';') else tail[k + 1:]
        if tail.endswith(';'):
            k2 = max(tail.rfind(';', 0, len(tail) - 1), tail.rfind('}', 0, len(tail) - 1))
            last = tail[k2 + 1:]
        if not re.match(r'\s*(continue|break|return)\b', last) and not re.search(r'\b%s\b' % re.escape(var), last):
            inserts.append(end)
    if nbind == 0:
        raise Undecided('%s: drops %s: no such binding' % (label, var))
    out = body
    for q in sorted(set(inserts), reverse=True):
        out = out[:q] + call + '; ' + out[q:]
    log.append({'in': label, 'explicit_drops': var, 'call': call, 'bindings': nbind, 'inserted': len(set(inserts))})
    return out


def _subst_binds(repl, binds):
    for k, v in binds.items():
        repl = repl.replace('$' + k, v.replace('\\', '\\\\'))
    return repl


def _inline_closure(body, name, label, log):
    """`let [mut] NAME = || [-> T] { B };` is deleted and every call `NAME()` is replaced by the block `{ B }` (Verus has no
    closures that capture mutable state).  Only for parameterless, non-escaping closures; when B can leave the closure early
    (`return`, `?`, `fail!`) every call must be in return position of the function (`return NAME();` or the function's
    tail), where leaving the closure and leaving the function coincide -- checked here, otherwise Undecided."""
    m = rsrc.mask(body)
    mm = re.search(r'\blet\s+(?:mut\s+)?%s\s*=\s*(?:move\s*)?\|\s*\|\s*(?:->\s*[^{]+?)?\{' % re.escape(name), m)
    if not mm:
        raise Undecided('%s: inline: no parameterless closure `%s`' % (label, name))
    o = mm.end() - 1
    e = rsrc.match_close(m, o)
    semi = re.match(r'\s*;', m[e:])
    if not semi:
        raise Undecided('%s: inline: closure `%s` is not a plain let statement' % (label, name))
    block = body[o:e]
    mblock = m[o:e]
    early = bool(re.search(r'\breturn\b|\?|\bfail!', mblock))
    rest = body[:mm.start()] + body[e + semi.end():]
    mrest = rsrc.mask(rest)
    uses = [x for x in re.finditer(r'\b%s\b' % re.escape(name), mrest)]
    calls = [x for x in re.finditer(r'\b%s\(\s*\)' % re.escape(name), mrest)]
    if len(uses) != len(calls) or not calls:
        raise Undecided('%s: inline: closure `%s` escapes or is never called (%d uses, %d calls)' % (label, name, len(uses), len(calls)))
    out = []
    i = 0
    for c in calls:
        if early:
            before = mrest[:c.start()].rstrip()
            after = mrest[c.end():]
            is_ret = before.endswith('return') and after.lstrip().startswith(';')
            is_tail = re.fullmatch(r'[\s,}]*', after) is not None
            for lk in re.finditer(r'\b(loop|while|for)\b|\|[^|]*\|\s*(?:->\s*[^{]+?)?\{', mrest[:c.start()]):
                ob = mrest.find('{', lk.end() - 1)
                if 0 <= ob < c.start() and rsrc.match_close(mrest, ob) > c.start():
                    raise Undecided('%s: inline: call of `%s` inside a loop or another closure' % (label, name))
            # `NAME()?`: fine when the closure only leaves early with an Err (`?` / fail!), which `?` would propagate anyway
            is_try = after.lstrip().startswith('?') and not re.search(r'\breturn\b', mblock)
            # value of a match arm whose `match` is itself the tail expression of the function
            is_arm_tail = False
            if before.endswith('=>') and re.match(r'\s*(,|\})', after):
                ob = c.start()
                depth = 0
                while ob >= 0:
                    ch = mrest[ob]
                    if ch == '}':
                        depth += 1
                    elif ch == '{':
                        if depth == 0:
                            break
                        depth -= 1
                    ob -= 1
                if ob >= 0 and re.search(r'\bmatch\b[^{};]*$', mrest[:ob]):
                    cl = rsrc.match_close(mrest, ob)
                    is_arm_tail = re.fullmatch(r'[\s,}]*', mrest[cl:]) is not None
            if not (is_ret or is_tail or is_try or is_arm_tail):
                raise Undecided('%s: inline: closure `%s` can leave early and is called outside return position' % (label, name))
        out.append(rest[i:c.start()])
        out.append(block)
        i = c.end()
    out.append(rest[i:])
    log.append({'in': label, 'inline_closure': name, 'calls': len(calls), 'can_leave_early': early})
    return ''.join(out)


def _expand_bytes_match_stmt(body):
    """match E { b"a" => X, b"bc" => Y, _ => Z } (E an identifier, arms without commas) -> if / else-if chain with length + element
    comparisons generated from the literals (same reason as _expand_bytes_matches)."""
    rx = re.compile(r'match\s+(\w+)\s*\{((?:\s*b"(?:[^"\\]|\\.)*"\s*=>\s*[^,{}]+,)+)\s*_\s*=>\s*([^,{}]+?),?\s*\}')
    def rep(mm):
        e = mm.group(1)
        arms = re.findall(r'(b"(?:[^"\\]|\\.)*")\s*=>\s*([^,{}]+),', mm.group(2))
        out = []
        for lit, expr in arms:
            bs = _bytes_of_literal(lit)
            cond = ' && '.join(['%s.len() == %d' % (e, len(bs))] + ['%s[%d] == %du8' % (e, k, b) for k, b in enumerate(bs)])
            out.append('if %s { %s }' % (cond, expr.strip()))
        return ' else '.join(out) + ' else { %s }' % mm.group(3).strip()
    return rx.sub(rep, body)


def _name_return(sig, ret):
    """`-> T` => `-> (ret: T)` at bracket depth 0 of the signature (where clauses kept)."""
    m = rsrc.mask(sig)
    depth = 0
    pos = -1
    for k in range(len(m) - 1):
        c = m[k]
        if c in '([{<':
            depth += 1
        elif c in ')]}':
            depth -= 1
        elif c == '>' and m[k - 1] != '-':
            depth -= 1
        elif c == '-' and m[k + 1] == '>' and depth == 0:
            pos = k
            break
    if pos < 0:
        return sig
    rest = sig[pos + 2:]
    wm = re.search(r'\bwhere\b', rsrc.mask(rest))
    if wm:
        ty, tail = rest[:wm.start()], ' ' + rest[wm.start():]
    else:
        ty, tail = rest, ''
    return sig[:pos] + '-> (%s: %s)' % (ret, ty.strip()) + tail


class FnBlock:
    def __init__(self, args):
        self.args = args
        self.sig_rw = []
        self.rw = []
        self.spec = []
        self.loops = {}
        self.forghost = {}
        self.inline = []
        self.drops = []


def expand(template_path, repo=REPO):
    """Returns (generated_text, meta) where meta lists functions, line ranges, rewrites."""
    lines = open(template_path).read().split('\n')
    out = []
    meta = {'functions': [], 'rewrites': [], 'items': [], 'vacuity_twins': [], 'expected_fail': [], 'binds': {}}
    cache = {}

    def src(file):
        if file not in cache:
            p = os.path.join(repo, file)
            if not os.path.exists(p):
                raise Undecided('anchor file missing: %s' % file)
            t = open(p).read()
            cache[file] = (t, rsrc.mask(t))
        return cache[file]

    i = 0
    n = len(lines)
    while i < n:
        ln = lines[i]
        s = ln.strip()
        if s == '//@macros':
            out.append(gen_macros(repo))
            i += 1
        elif s.startswith('//@include '):
            # included files are spliced into the template, so directives inside them are processed too
            inc = open(os.path.join(VERIF, s.split(None, 1)[1])).read().split('\n')
            lines[i:i + 1] = inc
            n = len(lines)
        elif s.startswith('//@expect_fail '):
            meta['expected_fail'].append(s.split(None, 1)[1].strip())
            i += 1
        elif s.startswith('//@item '):
            a = _kv(s[len('//@item '):])
            t, m = src(a['file'])
            scope = [x.strip() for x in a.get('scope', '').split(';;') if x.strip()]
            try:
                it = rsrc.find_item(t, scope, a['item'], m)
            except rsrc.AnchorError as e:
                raise Undecided('anchor %s :: %s: %s' % (a['file'], a['item'], e))
            txt = it.full
            # drop inner doc comments / attributes lines
            txt = re.sub(r'(?m)^[ \t]*///.*\n', '', txt)
            txt = re.sub(r'(?m)^[ \t]*#\[[^\]]*\]\s*\n', '', txt)
            txt = re.sub(r'^(pub(\([a-z]+\))?\s+)?', 'pub ', txt)
            if 'pubfields' in a['flags']:
                txt = re.sub(r'(?m)^(\s+)(?:pub(?:\([a-z]+\))?\s+)?([a-z_][a-z0-9_]*\s*:)', r'\1pub \2', txt)
            rules = [_parse_rw(f[3:]) for f in a['flags'] if f.startswith('rw ')]
            txt = _apply_rw(txt, rules, a['item'], meta['rewrites'])
            # `bind NAME REGEX`: group 1 of REGEX in the extracted item text is available as $NAME in later rewrites
            for f in a['flags']:
                if f.startswith('bind '):
                    _, nm, rx = f.split(None, 2)
                    bm = re.search(rx, txt)
                    if not bm:
                        raise Undecided('%s: bind %s: %r not found in the extracted item' % (a['item'], nm, rx))
                    meta['binds'][nm] = bm.group(1)
            if a.get('prefix'):
                txt = a['prefix'] + '\n' + txt
            meta['items'].append('%s :: %s' % (a['file'], a['item']))
            out.append(txt)
            i += 1
        elif s.startswith('//@shim '):
            # //@shim unit=<provider unit> | item=<fn item or id>
            # emits the provider unit's contract for that function as a TRUSTED (external_body) signature: the contract
            # text is read from the provider's template (single source of truth), the signature from /repo.
            a = _kv(s[len('//@shim '):])
            out.append(_emit_shim(a, src, meta))
            i += 1
        elif s.startswith('//@fn '):
            fb = FnBlock(_kv(s[len('//@fn '):]))
            i += 1
            cur = None
            while i < n and lines[i].strip() != '//@end':
                t_ = lines[i].strip()
                if t_.startswith('//@ sig '):
                    fb.sig_rw.append(_parse_rw(t_[len('//@ sig '):]))
                    cur = None
                elif t_.startswith('//@ rw '):
                    fb.rw.append(_parse_rw(t_[len('//@ rw '):]))
                    cur = None
                elif t_.startswith('//@ inline '):
                    fb.inline.append(t_.split()[2])
                    cur = None
                elif t_.startswith('//@ drops '):
                    mm = re.match(r'//@ drops (\w+)\s+=>\s+(.*)$', t_)
                    if not mm:
                        raise Undecided('bad drops directive: %r' % t_)
                    fb.drops.append((mm.group(1), mm.group(2)))
                    cur = None
                elif t_ == '//@ spec':
                    cur = fb.spec
                elif t_.startswith('//@ loop '):
                    k = int(t_.split()[2])
                    cur = fb.loops.setdefault(k, [])
                elif t_.startswith('//@ forghost '):
                    _, _, k, nm = t_.split()
                    fb.forghost[int(k)] = nm
                    cur = None
                elif t_.startswith('//@'):
                    raise Undecided('unknown directive %r' % t_)
                else:
                    if cur is None:
                        if t_:
                            raise Undecided('text outside spec/loop in fn block: %r' % t_)
                    else:
                        cur.append(lines[i])
                i += 1
            if i >= n:
                raise Undecided('//@fn without //@end')
            i += 1
            _emit_fn(fb, src, out, meta)
        else:
            out.append(ln)
            i += 1
    text = '\n'.join(out)
    # compute line ranges of emitted functions
    for f in meta['functions'] + meta['vacuity_twins']:
        a = text.find(f['marker'])
        f['line_start'] = text.count('\n', 0, a) + 1
        b = text.find(f['marker_end'])
        f['line_end'] = text.count('\n', 0, b) + 1
    return text, meta


def _emit_fn(fb, src, out, meta):
    a = fb.args
    t, m = src(a['file'])
    scope = [x.strip() for x in a.get('scope', '').split(';;') if x.strip()]
    if 'closure_after' in a:
        # a closure literal that is an argument of a macro invocation (e.g. the validators passed to semantic_string!):
        # `closure_after` is a regex that ends right before the closure's `|params|`; the closure is emitted as a function
        # `fn <item>(<params>) -> <ret>` with the closure's block as its body
        cands = [mm for mm in re.finditer(a['closure_after'] + r'\s*\|([^|]*)\|\s*(?=\{)', m)]
        if len(cands) != 1:
            raise Undecided('anchor %s :: closure after %r matched %d times' % (a['file'], a['closure_after'], len(cands)))
        mm = cands[0]
        o = mm.end()
        e = rsrc.match_close(m, o)
        label = '%s :: closure %s' % (a['file'], a['item'])
        sig = 'fn %s(%s) -> %s' % (a['item'], t[mm.start(1):mm.end(1)].strip(), a.get('cret', 'bool'))
        body = t[o:e]
    else:
        try:
            it = rsrc.find_item(t, scope, 'fn ' + a['item'], m)
        except rsrc.AnchorError as e:
            raise Undecided('anchor %s :: fn %s: %s' % (a['file'], a['item'], e))
        label = '%s :: %s' % (a['file'], ' :: '.join(scope + ['fn ' + a['item']]))
        sig = it.signature
        body = it.body
    # --- global normalisations
    sig = re.sub(r'^(pub(\([a-z]+\))?\s+)?', 'pub ', sig)
    if a.get('recv') == 'mut':
        sig, k = re.subn(r'\(\s*&\s*self\b', '(&mut self', sig)
        if k != 1:
            raise Undecided('%s: recv=mut but no `&self` receiver' % label)
    sig = _name_return(sig, a.get('ret', 'r'))
    new_name = a.get('as')
    if new_name:
        sig = re.sub(r'\bfn\s+%s\b' % re.escape(a['item']), 'fn ' + new_name, sig, count=1)
    sig = _apply_rw(sig, fb.sig_rw, label + ' (signature)', meta['rewrites'])
    body = rsrc.strip_comments(body)      # comments are not code: rewrites and the verifier see the body without them
    body = _split_debug_assert(body)
    body = _expand_bytes_matches(body)
    body = _expand_bytes_match_stmt(body)
    body = re.sub(r'(?m)^([ \t]*)const ([A-Z_][A-Z0-9_]*)\s*:', r'\1let \2:', body)
    body = re.sub(r'(?m)^[ \t]*self\.verify_init\([^;]*\);[ \t]*\n', '', body)
    body = re.sub(r'(?m)^[ \t]*#\[(inline|allow|cfg_attr|deny)[^\]]*\]\s*\n', '', body)
    names = []
    for nm in fb.inline:
        if nm == '*':
            # every parameterless local closure, in definition order (a closure may use the ones defined before it)
            for cm in re.finditer(r'\blet\s+(?:mut\s+)?(\w+)\s*=\s*(?:move\s*)?\|\s*\|', rsrc.mask(body)):
                if cm.group(1) not in names:
                    names.append(cm.group(1))
        elif nm not in names:
            names.append(nm)
    for nm in names:
        body = _inline_closure(body, nm, label, meta['rewrites'])
    for (var, call) in fb.drops:
        body = _explicit_drops(body, var, call, label, meta['rewrites'])
    body = _apply_rw(body, [(c, rx, _subst_binds(rp, meta['binds'])) for (c, rx, rp) in fb.rw], label, meta['rewrites'])
    # --- splice loop contracts (from the last loop to the first so offsets stay valid)
    if fb.loops or fb.forghost:
        lp = rsrc.loops(body)
        for k in sorted(set(fb.loops) | set(fb.forghost), reverse=True):
            if k < 1 or k > len(lp):
                # the loop the invariant was written for is gone (e.g. a retry loop replaced by a single attempt): an
                # invariant is only a proof hint, so the function is still checked against its contract without it
                meta['rewrites'].append({'in': label, 'loop_spec_skipped': k, 'loops_found': len(lp)})
                continue
            kw_at, open_at = lp[k - 1]
            head = body[kw_at:open_at]
            if k in fb.forghost:
                head, c = re.subn(r'\bin\b', 'in %s:' % fb.forghost[k], head, count=1)
                if c != 1:
                    raise Undecided('%s: loop %d is not a for loop' % (label, k))
            spec = '\n'.join(fb.loops.get(k, []))
            body = body[:kw_at] + head.rstrip() + '\n' + spec + '\n' + body[open_at:]
    fname = new_name or a['item']
    name = a.get('id') or fname      # bookkeeping id (unique per unit); fname is the Rust fn name
    spec = '\n'.join(fb.spec)
    mk = '/*VX-BEGIN %s*/' % name
    mke = '/*VX-END %s*/' % name
    pre = ''
    if 'nodecreases' in a['flags']:
        pre = '#[verifier::exec_allows_no_decreases_clause]\n'
    out.append('%s%s%s\n%s\n%s%s' % (mk, pre, sig, spec, body, mke))
    nclauses = len(re.findall(r'(?m),\s*$', spec))
    if any(f['name'] == name for f in meta['functions']):
        raise Undecided('duplicate function id %r in unit (use id=...)' % name)
    meta['functions'].append({'label': label, 'name': name, 'fname': fname, 'marker': mk, 'marker_end': mke,
                              'clauses': nclauses, 'spec': spec.strip()})
    if 'novac' not in a['flags']:
        # vacuity twin: same requires, `ensures false`; must FAIL (precondition satisfiable, an exit reachable)
        vname = name + '__vac'
        vsig = re.sub(r'\bfn\s+%s\b' % re.escape(fname), 'fn ' + fname + '__vac', sig, count=1)
        req = _requires_only(spec)
        vmk = '/*VX-BEGIN %s*/' % vname
        vmke = '/*VX-END %s*/' % vname
        # recursion inside twin: keep calling the original
        out.append('%s%s%s\n%s\n    ensures false,\n%s%s' % (vmk, pre, vsig, req, body, vmke))
        meta['vacuity_twins'].append({'label': label, 'name': vname, 'marker': vmk, 'marker_end': vmke})


def _parse_fn_blocks(template_path):
    """Parse the //@fn blocks of a template (no extraction) -> list of FnBlock."""
    lines = open(template_path).read().split('\n')
    res = []
    i = 0
    while i < len(lines):
        st = lines[i].strip()
        if st.startswith('//@include '):
            lines[i:i + 1] = open(os.path.join(VERIF, st.split(None, 1)[1])).read().split('\n')
            continue
        if st.startswith('//@fn '):
            fb = FnBlock(_kv(st[len('//@fn '):]))
            i += 1
            cur = None
            while i < len(lines) and lines[i].strip() != '//@end':
                t_ = lines[i].strip()
                if t_.startswith('//@ sig '):
                    fb.sig_rw.append(_parse_rw(t_[len('//@ sig '):])); cur = None
                elif t_.startswith('//@ rw ') or t_.startswith('//@ inline ') or t_.startswith('//@ drops '):
                    cur = None
                elif t_ == '//@ spec':
                    cur = fb.spec
                elif t_.startswith('//@ loop ') or t_.startswith('//@ forghost '):
                    cur = None if t_.startswith('//@ forghost') else []
                elif cur is not None:
                    cur.append(lines[i])
                i += 1
            res.append(fb)
        i += 1
    return res


def _emit_shim(a, src, meta):
    unit = a['unit']
    tpl = os.path.join(VERIF, 'units', unit, 'unit.vrs')
    want = a['item']
    fbs = [fb for fb in _parse_fn_blocks(tpl) if (fb.args.get('id') or fb.args.get('as') or fb.args['item']) == want]
    if len(fbs) != 1:
        raise Undecided('shim: provider unit %s has %d fn blocks named %r' % (unit, len(fbs), want))
    fb = fbs[0]
    pa = fb.args
    t, m = src(pa['file'])
    scope = [x.strip() for x in pa.get('scope', '').split(';;') if x.strip()]
    try:
        it = rsrc.find_item(t, scope, 'fn ' + pa['item'], m)
    except rsrc.AnchorError as e:
        raise Undecided('shim anchor %s :: fn %s: %s' % (pa['file'], pa['item'], e))
    sig = it.signature
    sig = re.sub(r'^(pub(\([a-z]+\))?\s+)?', 'pub ', sig)
    if pa.get('recv') == 'mut':
        sig = re.sub(r'\(\s*&\s*self\b', '(&mut self', sig)
    sig = _name_return(sig, pa.get('ret', 'r'))
    if pa.get('as'):
        sig = re.sub(r'\bfn\s+%s\b' % re.escape(pa['item']), 'fn ' + pa['as'], sig, count=1)
    sig = _apply_rw(sig, fb.sig_rw, 'shim %s::%s (signature)' % (unit, want), meta['rewrites'])
    meta.setdefault('shims', []).append('%s :: %s (contract proved in unit %s)' % (pa['file'], pa['item'], unit))
    spec = '\n'.join(fb.spec)
    extra = a.get('requires')
    if extra:
        # the composing unit may DEMAND more of its own call sites (an extra precondition is an extra obligation of the
        # caller, never an assumption)
        if re.search(r'(?m)^\s*requires\b', spec):
            spec = re.sub(r'(?m)^(\s*)requires\b', r'\1requires %s,' % extra.replace('\\', '\\\\'), spec, count=1)
        else:
            spec = '    requires %s,\n' % extra + spec
    return '#[verifier::external_body] /*SHIM: contract proved in unit %s*/\n%s\n%s\n{ unimplemented!() }' % (unit, sig, spec)


def _requires_only(spec):
    """Keep the `requires` section of a spec (up to the next top-level keyword)."""
    m = re.search(r'(?m)^\s*requires\b', spec)
    if not m:
        return ''
    rest = spec[m.start():]
    e = re.search(r'(?m)^\s*(ensures|decreases|returns|opens_invariants|no_unwind)\b', rest)
    return rest[:e.start()] if e else rest


_ERR_RX = re.compile(r'^(error|warning|note)(\[[A-Z0-9]+\])?: (.*)$')


def parse_stderr(stderr, genfile_name):
    """Return list of {'kind','msg','line','text'} for every error block."""
    blocks = []
    cur = None
    for ln in stderr.split('\n'):
        mm = _ERR_RX.match(ln)
        if mm:
            cur = {'sev': mm.group(1), 'code': mm.group(2), 'msg': mm.group(3), 'lines': [], 'text': [ln]}
            blocks.append(cur)
        elif cur is not None:
            cur['text'].append(ln)
            lm = re.match(r'\s*-->\s*(.*?):(\d+):(\d+)', ln)
            if lm:
                cur['lines'].append(int(lm.group(2)))
            lm = re.match(r'\s*(\d+)\s*\|', ln)
            if lm:
                cur['lines'].append(int(lm.group(1)))
    # an error raised against a library specification (e.g. the ensures of From::from reached through `?`) carries no span of
    # the generated file; Verus then names the function in the following `note: function body check` block
    for k, b in enumerate(blocks):
        if b['sev'] == 'error' and not b['lines'] and k + 1 < len(blocks) and blocks[k + 1]['sev'] == 'note' \
                and blocks[k + 1]['msg'].startswith('function body check'):
            b['lines'] = list(blocks[k + 1]['lines'])
            b['text'] += blocks[k + 1]['text']
    return [b for b in blocks if b['sev'] == 'error' and not b['msg'].startswith('aborting due to')]


UNDECIDED_MSGS = ('Resource limit', 'rlimit', 'timed out', 'could not', 'internal error',
                  'unsupported', 'not supported', 'The verifier does not yet support')


def run_unit(unit_dir, workdir, tier='quick', rlimit=None, repo=REPO, extra_args=None):
    """Generate + verify one V unit.  Returns a result dict (never raises for verification failures)."""
    cfg = json.load(open(os.path.join(unit_dir, 'unit.json')))
    name = cfg['name']
    res = {'name': name, 'engine': 'V', 'status': None, 'failures': [], 'functions': [],
           'backend': 'verus 0.2026.09.13 (z3 via verus)', 'bounded': False, 'bound': None}
    t0 = time.time()
    try:
        text, meta = expand(os.path.join(unit_dir, cfg.get('template', 'unit.vrs')), repo)
    except Undecided as e:
        res.update(status='undecided', reason=str(e), wall_s=time.time() - t0)
        return res
    gen = os.path.join(workdir, name.replace('-', '_') + '.rs')
    open(gen, 'w').write(text)
    res['generated_file'] = gen
    rl = rlimit or cfg.get('rlimit', 30)
    cmd = ['verus', gen, '--output-json', '--time-expanded', '--rlimit', str(rl), '--multiple-errors', '4']
    if extra_args:
        cmd += extra_args
    res['checker_cmd'] = ' '.join(cmd)
    try:
        p = subprocess.run(cmd, capture_output=True, text=True, cwd=workdir, timeout=cfg.get('timeout_s', 1500))
    except subprocess.TimeoutExpired:
        res.update(status='undecided', reason='verus timeout', wall_s=time.time() - t0)
        return res
    res['stderr'] = p.stderr
    try:
        js = json.loads(p.stdout)
    except Exception:
        res.update(status='undecided', reason='verus produced no json (rc=%d): %s' % (p.returncode, p.stderr[-2000:]),
                   wall_s=time.time() - t0)
        return res
    vr = js.get('verification-results', {})
    errs = parse_stderr(p.stderr, gen)
    res['verified_count'] = vr.get('verified', 0)
    fb = {}
    smt = js.get('times-ms', {}).get('smt', {})
    for mod in smt.get('smt-run-module-times', []):
        for f in mod.get('function-breakdown', []):
            fb[f['function']] = f
    res['solver_s'] = smt.get('smt-run', 0) / 1000.0
    res['rlimit_used'] = smt.get('rlimit-run', 0)
    # compile errors / unsupported constructs => undecided
    if vr.get('encountered-vir-error') or (not vr) or any(e['code'] for e in errs) or \
            (vr.get('encountered-error') and vr.get('errors', 0) == 0 and vr.get('verified', 0) == 0):
        res.update(status='undecided', reason='generated file does not compile under Verus:\n' +
                   '\n'.join('\n'.join(e['text']) for e in errs)[:6000], wall_s=time.time() - t0)
        return res

    def owner(line):
        for f in meta['functions'] + meta['vacuity_twins']:
            if f['line_start'] <= line <= f['line_end']:
                return f
        return None

    failed = {}   # name -> list of error blocks
    other = []
    for e in errs:
        if any(u in e['msg'] for u in UNDECIDED_MSGS) or any(u in '\n'.join(e['text']) for u in ('Resource limit', 'rlimit exceeded')):
            res.update(status='undecided', reason='solver limit: ' + '\n'.join(e['text'])[:3000], wall_s=time.time() - t0)
            return res
        o = None
        for l in e['lines']:
            o = owner(l)
            if o:
                break
        if o:
            failed.setdefault(o['name'], []).append(e)
        else:
            other.append(e)
    exp_fail = set(meta['expected_fail'])
    twins = {f['name'] for f in meta['vacuity_twins']}
    # Z3 runs incrementally over the functions of a module, so a proof near the edge can fail or pass depending on UNRELATED
    # functions verified before it (observed: seed C10-7 changed `add` only and `update_state` stopped verifying).  A failing
    # extracted function is therefore re-checked ALONE; what verifies alone is discharged (sound: it is a proof), what
    # fails alone as well is reported.
    res['rechecked_in_isolation'] = []
    for f in meta['functions']:
        if f['name'] in failed and f['name'] not in twins:
            fname = f.get('fname', f['name'])
            cmd2 = ['verus', gen, '--output-json', '--rlimit', str(rl), '--verify-root', '--verify-function', '*' + fname]
            try:
                p2 = subprocess.run(cmd2, capture_output=True, text=True, cwd=workdir, timeout=600)
                js2 = json.loads(p2.stdout)
                vr2 = js2.get('verification-results', {})
                errs2 = parse_stderr(p2.stderr, gen)
                still = [e for e in errs2 if any((owner(l) or {}).get('name') == f['name'] for l in e['lines'])]
                clean = (not vr2.get('encountered-vir-error')) and vr2.get('verified', 0) >= 1 and not still \
                    and not any('Resource limit' in '\n'.join(e['text']) for e in errs2) \
                    and not any(owner(l) is None for e in errs2 for l in e['lines'][:1])
                res['rechecked_in_isolation'].append({'function': f['name'], 'verified_alone': bool(clean)})
                if clean:
                    del failed[f['name']]
            except Exception as ex:       # no verdict from the re-check: the original failure stands
                res['rechecked_in_isolation'].append({'function': f['name'], 'verified_alone': False, 'note': str(ex)[:200]})
    # failures outside extracted fns: expected canaries are matched by name in the message text/lines
    other_real = []
    canary_seen = set()
    for e in other:
        txt = '\n'.join(e['text'])
        hit = [c for c in exp_fail if _fn_at(text, e['lines'], c)]
        if hit:
            canary_seen.update(hit)
        else:
            other_real.append(e)
    vac_ok = all(t in failed for t in twins)
    vac_missing = sorted(t for t in twins if t not in failed)
    res['vacuity'] = {'twins': len(twins), 'twins_failed_as_required': len(twins) - len(vac_missing),
                      'canaries_expected': sorted(exp_fail), 'canaries_failed_as_required': sorted(canary_seen)}
    for f in meta['functions']:
        key = [k for k in fb if k.endswith('::' + f.get('fname', f['name']))]
        ok = f['name'] not in failed
        fr = {'function': f['label'], 'name': f['name'], 'contract_form': 'verus requires/ensures spliced on extracted body',
              'clauses': f['clauses'], 'discharged': ok,
              'solver_ms': sum(fb[k].get('time', 0) for k in key), 'rlimit': sum(fb[k].get('rlimit', 0) for k in key)}
        res['functions'].append(fr)
        if not ok:
            for e in failed[f['name']]:
                res['failures'].append({'unit': name, 'function': f['label'], 'fn_name': f['name'],
                                        'obligation': e['msg'], 'detail': '\n'.join(e['text'])})
    for e in other_real:
        # a failing lemma / spec-level obligation of the unit
        res['failures'].append({'unit': name, 'function': '(unit lemma / prelude) line %s' % e['lines'][:1],
                                'fn_name': _enclosing_fn(text, e['lines']), 'obligation': e['msg'],
                                'detail': '\n'.join(e['text'])})
    res['meta'] = {'items': meta['items'], 'rewrites': meta['rewrites'], 'shims': meta.get('shims', [])}
    res['assumption_scan'] = scan_assumptions(text)
    n_lemmas = len(re.findall(r'\bproof fn\b', text)) - len(exp_fail)
    res['lemmas'] = max(n_lemmas, 0)
    total_ok = vr.get('verified', 0)
    res['obligations'] = len(meta['functions']) + max(n_lemmas, 0)
    res['discharged'] = sum(1 for f in res['functions'] if f['discharged']) + max(n_lemmas, 0) - len(other_real)
    if not vac_ok or (exp_fail - canary_seen):
        res.update(status='undecided', reason='vacuity guard: twins that verified `ensures false`: %s; canaries that did not fail: %s'
                   % (vac_missing, sorted(exp_fail - canary_seen)), wall_s=time.time() - t0)
        return res
    res['status'] = 'fail' if res['failures'] else 'pass'
    res['wall_s'] = time.time() - t0
    return res


def _fn_at(text, lines, fname):
    return _enclosing_fn(text, lines) == fname


def _enclosing_fn(text, lines):
    if not lines:
        return None
    tl = text.split('\n')
    for l in lines:
        k = min(l, len(tl)) - 1
        while k >= 0:
            mm = re.search(r'\bfn\s+([A-Za-z0-9_]+)', tl[k])
            if mm:
                return mm.group(1)
            k -= 1
    return None


def scan_assumptions(text):
    """Mechanical scan of the generated file for every unchecked assumption token."""
    found = []
    tl = text.split('\n')
    for k, ln in enumerate(tl, 1):
        st = ln.strip()
        if st.startswith('//'):
            continue
        if 'external_body' in st:
            nxt = ''
            for j in range(k, min(k + 3, len(tl))):
                mm = re.search(r'\bfn\s+([A-Za-z0-9_]+)', tl[j])
                if mm:
                    nxt = mm.group(1)
                    break
            ctx = _enclosing_impl(tl, k - 1)
            found.append('external_body (trusted spec): %s%s' % (ctx + '::' if ctx else '', nxt))
        for tok in ('assume_specification', 'assume(', 'admit(', 'exec_allows_no_decreases_clause'):
            if tok in st:
                found.append('%s @ generated line %d: %s' % (tok, k, st[:100]))
    return sorted(set(found))


def _enclosing_impl(tl, k):
    while k >= 0:
        mm = re.match(r'\s*impl(?:<[^>]*>)?\s+([A-Za-z0-9_:<>]+)', tl[k])
        if mm:
            return mm.group(1)
        if re.match(r'^(pub )?(struct|enum|mod|fn|proof fn|spec fn)\b', tl[k]):
            return ''
        k -= 1
    return ''
