"""Engine K: Kani function contracts / harnesses injected into a scratch copy of /repo.

unit.json (engine K):
{
  "name": "iq-k", "engine": "K", "crate": "iceoryx2-bb-lock-free",
  "harness_file": "harness.rs",
  "mod": {"file": "...rs", "scope": ["mod details"], "name": "__verif_iq"},      # `#[cfg(kani)] #[path=..] mod name;` appended at end of scope
  "contracts": [ {"file": "...rs", "scope": [...], "item": "fn push", "attrs": ["kani::requires(..)", ...]} ],
  "derive_arbitrary": [ {"file":..., "scope": [...], "item": "enum X"} ],
  "harnesses": [ {"name": "push_contract_cap3", "tier": "quick", "form": "contract"|"harness"|"bounded",
                  "function": "repo path :: item", "expect": "pass"|"fail", "covers": 2, "bound": {...}} ]
}
"""
import json
import os
import re
import shutil
import subprocess
import tempfile
import time

import rsrc

VERIF = os.path.dirname(os.path.dirname(os.path.abspath(__file__)))
REPO = os.environ.get('VERIF_REPO', '/repo')


class Undecided(Exception):
    pass


class Scratch:
    """A throw-away copy of /repo's working tree (no target/, no .git/) under /tmp."""

    def __init__(self, repo=REPO):
        self.repo = repo
        self.dir = tempfile.mkdtemp(prefix='verif-scratch-')
        self.root = os.path.join(self.dir, 'repo')
        subprocess.run(['rsync', '-a', '--exclude', '/target', '--exclude', '.git', '--exclude', '/iceoryx2-cxx',
                        '--exclude', '/iceoryx2-c/', '--exclude', '/doc', '--exclude', '/examples/cxx', '--exclude', '/examples/c',
                        repo.rstrip('/') + '/', self.root + '/'], check=True)
        self.units_dir = os.path.join(self.dir, 'units')
        os.makedirs(self.units_dir)
        self.injected = []
        self._texts = {}

    def cleanup(self):
        shutil.rmtree(self.dir, ignore_errors=True)

    def _load(self, file):
        p = os.path.join(self.root, file)
        if not os.path.exists(p):
            raise Undecided('anchor file missing: %s' % file)
        return open(p).read()

    def _store(self, file, text):
        open(os.path.join(self.root, file), 'w').write(text)

    def inject_unit(self, unit_dir, cfg):
        name = cfg['name']
        # copy harness file(s) into the scratch dir so that concrete-playback=inplace never edits /verif
        udst = os.path.join(self.units_dir, name)
        os.makedirs(udst, exist_ok=True)
        hf = cfg.get('harness_file', 'harness.rs')
        shutil.copy(os.path.join(unit_dir, hf), os.path.join(udst, hf))
        for extra in cfg.get('extra_files', []):
            shutil.copy(os.path.join(unit_dir, extra), os.path.join(udst, extra))
        try:
            md = cfg['mod']
            text = self._load(md['file'])
            m = rsrc.mask(text)
            line = '\n#[cfg(kani)]\n#[path = "%s"]\nmod %s;\n' % (os.path.join(udst, hf), md['name'])
            if md.get('scope'):
                a, b = rsrc.resolve_scope(text, m, md['scope'])
                text = text[:b] + line + text[b:]
            else:
                text = text + line
            self._store(md['file'], text)
            self.injected.append('%s: mod %s (harness module, cfg(kani))' % (md['file'], md['name']))
            for c in cfg.get('contracts', []):
                text = self._load(c['file'])
                it = rsrc.find_item(text, c.get('scope', []), c['item'])
                attrs = ''.join('#[cfg_attr(kani, %s)]\n' % a for a in c['attrs'])
                text = text[:it.sig_start] + attrs + text[it.sig_start:]
                self._store(c['file'], text)
                self.injected.append('%s: %d contract attribute(s) on %s' % (c['file'], len(c['attrs']), c['item']))
            for d in cfg.get('derive_arbitrary', []):
                text = self._load(d['file'])
                it = rsrc.find_item(text, d.get('scope', []), d['item'])
                text = text[:it.sig_start] + '#[cfg_attr(kani, derive(kani::Arbitrary))]\n' + text[it.sig_start:]
                self._store(d['file'], text)
                self.injected.append('%s: derive(kani::Arbitrary) on %s' % (d['file'], d['item']))
            for ins in cfg.get('insert', []):
                # generic: insert text before an item or at end of scope
                text = self._load(ins['file'])
                if 'before' in ins:
                    it = rsrc.find_item(text, ins.get('scope', []), ins['before'])
                    text = text[:it.start] + ins['text'] + '\n' + text[it.start:]
                else:
                    m = rsrc.mask(text)
                    a, b = rsrc.resolve_scope(text, m, ins.get('scope', []))
                    text = text[:b] + '\n' + ins['text'] + '\n' + text[b:]
                self._store(ins['file'], text)
                self.injected.append('%s: %s' % (ins['file'], ins.get('why', 'insert')))
        except rsrc.AnchorError as e:
            raise Undecided('unit %s: %s' % (name, e))


_HARNESS_RX = re.compile(r'^(?:Thread (\d+): )?Checking harness (\S+?)\.\.\.\s*$')
_THREAD_RX = re.compile(r'^Thread (\d+): ?(.*)$')


def parse_kani_output(out):
    """Split kani output per harness (terse format, with or without `Thread N:` prefixes of -j).
    Returns {short_name: {...}}"""
    res = {}
    by_thread = {}
    cur = None
    for ln in out.split('\n'):
        s = ln.strip()
        mm = _HARNESS_RX.match(s)
        if mm:
            full = mm.group(2)
            h = {'full': full, 'lines': [], 'status': None, 'time_s': None, 'failed_checks': [],
                 'covers_sat': None, 'covers_total': None, 'checks_failed': None, 'checks_total': None,
                 'unwind_fail': False}
            res[full.split('::')[-1]] = h
            if mm.group(1) is not None:
                by_thread[mm.group(1)] = h
                cur = None
            else:
                cur = h
            continue
        tm = _THREAD_RX.match(s)
        if tm:
            cur = by_thread.get(tm.group(1))
            s = tm.group(2).strip()
            if not s:
                continue
        if s.startswith('Manual Harness Summary') or s.startswith('Complete - '):
            cur = None
        if cur is None:
            continue
        cur['lines'].append(ln)
        if s.startswith('VERIFICATION:- '):
            cur['status'] = s.split('VERIFICATION:- ')[1].split()[0]
        elif s.startswith('Verification Time:'):
            try:
                cur['time_s'] = float(s.split(':')[1].strip().rstrip('s'))
            except ValueError:
                pass
        elif s.startswith('Failed Checks:'):
            cur['failed_checks'].append(s[len('Failed Checks:'):].strip())
            cur['_infc'] = True
        elif s.startswith('File:') and cur['failed_checks']:
            cur['failed_checks'][-1] += ' [' + s + ']'
            cur['_infc'] = False
        elif cur.get('_infc') and s and not s.startswith('**'):
            cur['failed_checks'][-1] += ' ' + s
        else:
            mm = re.match(r'\*\* (\d+) of (\d+) cover properties satisfied', s)
            if mm:
                cur['covers_sat'], cur['covers_total'] = int(mm.group(1)), int(mm.group(2))
            mm = re.match(r'\*\* (\d+) of (\d+) failed', s)
            if mm:
                cur['checks_failed'], cur['checks_total'] = int(mm.group(1)), int(mm.group(2))
        if 'unwinding assertion' in s:
            cur['unwind_fail'] = True
    return res


def run_crate(scratch, crate, harness_names, jobs=6, timeout_s=1500, extra=None, mem_gb=24, solver=None):
    env = dict(os.environ)
    env['CARGO_NET_OFFLINE'] = 'true'
    env['CARGO_TARGET_DIR'] = os.path.join(scratch.dir, 'target')
    cmd = ['cargo', 'kani', '-p', crate, '-Z', 'function-contracts', '-Z', 'stubbing', '-j', str(jobs),
           '--output-format', 'terse']
    if solver:
        cmd += ['--solver', solver]
    for h in harness_names:
        cmd += ['--exact', '--harness', h] if False else ['--harness', h]
    if extra:
        cmd += extra
    # address-space limit per process so that a CBMC blow-up cannot take the machine down
    shell = 'ulimit -v %d; exec "$@"' % (mem_gb * 1024 * 1024)
    t0 = time.time()
    try:
        p = subprocess.run(['bash', '-c', shell, 'bash'] + cmd, cwd=scratch.root, env=env, capture_output=True,
                           text=True, timeout=timeout_s)
        out = p.stdout + '\n' + p.stderr
        rc = p.returncode
        timed_out = False
    except subprocess.TimeoutExpired as e:
        out = (e.stdout or b'').decode('utf8', 'replace') + '\n' + (e.stderr or b'').decode('utf8', 'replace') \
            if isinstance(e.stdout, (bytes, type(None))) else str(e.stdout) + str(e.stderr)
        rc = -1
        timed_out = True
        subprocess.run(['pkill', '-9', '-x', 'cbmc'], capture_output=True)
    return {'cmd': 'CARGO_NET_OFFLINE=true ' + ' '.join(cmd), 'out': out, 'rc': rc, 'wall_s': time.time() - t0,
            'timed_out': timed_out}


def playback(scratch, crate, harness, form='harness', unit=None, harness_file='harness.rs', timeout_s=900):
    """Re-run one failing harness with concrete playback.  Returns dict(playback_test, inputs, concrete_run).
    For plain assert-harnesses the generated unit test is then executed against the real (scratch-copied) code with
    `cargo kani playback`; for proof_for_contract harnesses Kani does not evaluate contract clauses in concrete mode,
    so the test (= the failing input vector) is recorded but not executed."""
    env = dict(os.environ)
    env['CARGO_NET_OFFLINE'] = 'true'
    env['CARGO_TARGET_DIR'] = os.path.join(scratch.dir, 'target')
    cmd = ['cargo', 'kani', '-p', crate, '-Z', 'function-contracts', '-Z', 'stubbing', '-Z', 'concrete-playback',
           '--concrete-playback=print', '--harness', harness]
    try:
        p = subprocess.run(cmd, cwd=scratch.root, env=env, capture_output=True, text=True, timeout=timeout_s)
    except subprocess.TimeoutExpired:
        return {'playback_test': None, 'inputs': None, 'concrete_run': 'not-available (timeout)'}
    blocks = re.findall(r'```\s*\n(.*?)```', p.stdout, flags=re.S)
    tests = [b for b in blocks if '#[test]' in b]
    noncover = [b for b in tests if 'Check for `cover`' not in b]
    if not tests:
        return {'playback_test': None, 'inputs': None, 'concrete_run': 'not-available (kani printed no concrete test)'}
    chosen = (noncover or tests)[0]
    code = chosen[chosen.index('#[test]'):].strip()
    inputs = re.findall(r'^\s*// (.*)$', code, flags=re.M)
    res = {'playback_test': code, 'inputs': inputs, 'check': chosen[:chosen.index('#[test]')].strip()[:600]}
    if form == 'contract' or unit is None or not noncover:
        res['concrete_run'] = 'not-executed (proof_for_contract harness: contract clauses are not evaluated in concrete playback; the input vector above is the solver counterexample)'
        return res
    hf = os.path.join(scratch.units_dir, unit, harness_file)
    name = re.search(r'fn (kani_concrete_playback_\w+)', code).group(1)
    with open(hf, 'a') as fh:
        fh.write('\n' + code + '\n')
    try:
        q = subprocess.run(['cargo', 'kani', 'playback', '-Z', 'concrete-playback', '-p', crate, '--', name],
                           cwd=scratch.root, env=env, capture_output=True, text=True, timeout=timeout_s)
        out = q.stdout + q.stderr
        if re.search(r'test result: FAILED', out):
            mm = re.search(r'panicked at (.*?)\n(.*?)\n', out)
            res['concrete_run'] = 'reproduced: the concrete test fails on the real code (%s)' % (mm.group(2)[:200] if mm else 'panic')
        elif re.search(r'test result: ok', out):
            res['concrete_run'] = 'not-reproduced (concrete test passes; failing check is a Kani-only check such as pointer validity)'
        else:
            res['concrete_run'] = 'not-available (playback build failed)'
    except subprocess.TimeoutExpired:
        res['concrete_run'] = 'not-available (playback timeout)'
    return res


def classify(cfg, harness_cfg, hres):
    """-> ('pass'|'fail'|'undecided', reason)"""
    exp = harness_cfg.get('expect', 'pass')
    if hres is None or hres['status'] is None:
        return 'undecided', 'no verification verdict for harness (build error, timeout or out of memory)'
    st = hres['status']
    if exp == 'fail':
        if st == 'FAILED' and hres['failed_checks']:
            return 'pass', 'canary failed as required'
        return 'undecided', 'canary harness did not fail with a failed check (status %s)' % st
    if st == 'SUCCESSFUL':
        need = harness_cfg.get('covers')
        if need is not None and (hres['covers_sat'] is None or hres['covers_sat'] < need):
            return 'undecided', 'vacuity guard: only %s of %s required cover properties satisfied' % (hres['covers_sat'], need)
        return 'pass', ''
    txt = '\n'.join(hres['lines'])
    if hres['unwind_fail'] or re.search(r'unwinding assertion loop', ' '.join(hres['failed_checks'])):
        real = [c for c in hres['failed_checks'] if 'unwinding assertion' not in c]
        if not real:
            return 'undecided', 'unwinding assertion failed (bound too small for the current code)'
    if 'CBMC failed' in txt or 'out of memory' in txt.lower() or 'timed out' in txt.lower():
        return 'undecided', 'solver resource problem'
    if not hres['failed_checks']:
        return 'undecided', 'FAILED without failed checks (tool problem)'
    return 'fail', '; '.join(hres['failed_checks'])
