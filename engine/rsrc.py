"""Rust source slicer.

A hand-written scanner that understands line comments, nested block comments, string / raw-string /
byte-string literals and char literals versus lifetimes, and balances {} () [].  It never parses
Rust; it only locates items by (scope headers, item kind + name) and returns byte spans, so the
engines can extract function bodies from /repo or inject lines in front of / inside items of a
scratch copy.  Items are addressed by name, never by line number.
"""
import re


class AnchorError(Exception):
    """An anchor could not be resolved (0 or >1 matches) -- the check exits 2, never a VIOLATION."""


def mask(text):
    """Return a string of the same length where comments, string and char literals are blanked
    (replaced by spaces, newlines kept) so that brace matching and regex search are safe."""
    out = list(text)
    n = len(text)
    i = 0

    def blank(a, b):
        for k in range(a, b):
            if out[k] != '\n':
                out[k] = ' '

    while i < n:
        c = text[i]
        if c == '/' and i + 1 < n and text[i + 1] == '/':
            j = text.find('\n', i)
            if j < 0:
                j = n
            blank(i, j)
            i = j
        elif c == '/' and i + 1 < n and text[i + 1] == '*':
            depth = 1
            j = i + 2
            while j < n and depth > 0:
                if text.startswith('/*', j):
                    depth += 1
                    j += 2
                elif text.startswith('*/', j):
                    depth -= 1
                    j += 2
                else:
                    j += 1
            blank(i, j)
            i = j
        elif c == '"' or (c in 'br' and _is_str_prefix(text, i)):
            j = _skip_string(text, i)
            # keep the delimiters' positions blank as well
            blank(i, j)
            i = j
        elif c == "'":
            j = _skip_char_or_lifetime(text, i)
            if j > i + 1 and text[j - 1] == "'" and j - i >= 3:
                blank(i, j)
            i = j
        else:
            i += 1
    return ''.join(out)


def strip_comments(text):
    """Remove line and block comments (string / char literals are left alone); newlines are kept."""
    out = []
    n = len(text)
    i = 0
    while i < n:
        c = text[i]
        if c == '/' and i + 1 < n and text[i + 1] == '/':
            j = text.find('\n', i)
            if j < 0:
                j = n
            i = j
        elif c == '/' and i + 1 < n and text[i + 1] == '*':
            depth = 1
            j = i + 2
            while j < n and depth > 0:
                if text.startswith('/*', j):
                    depth += 1
                    j += 2
                elif text.startswith('*/', j):
                    depth -= 1
                    j += 2
                else:
                    j += 1
            out.append('\n' * text.count('\n', i, j))
            i = j
        elif c == '"' or (c in 'br' and _is_str_prefix(text, i)):
            j = _skip_string(text, i)
            out.append(text[i:j])
            i = j
        elif c == "'":
            j = _skip_char_or_lifetime(text, i)
            out.append(text[i:j])
            i = j
        else:
            out.append(c)
            i += 1
    return ''.join(out)


def _is_str_prefix(text, i):
    # b"..", r"..", r#".."#, br"..", br#".."#, b'x'
    if i > 0 and (text[i - 1].isalnum() or text[i - 1] == '_'):
        return False
    m = re.match(r'(b?r#*"|b")', text[i:i + 12])
    return m is not None


def _skip_string(text, i):
    n = len(text)
    m = re.match(r'b?r(#*)"', text[i:i + 12])
    if m:
        hashes = m.group(1)
        end = text.find('"' + hashes, i + len(m.group(0)))
        return n if end < 0 else end + 1 + len(hashes)
    if text[i] == 'b':
        i += 1
    j = i + 1
    while j < n:
        if text[j] == '\\':
            j += 2
        elif text[j] == '"':
            return j + 1
        else:
            j += 1
    return n


def _skip_char_or_lifetime(text, i):
    n = len(text)
    # char literal: 'x' or '\..'
    if i + 1 < n and text[i + 1] == '\\':
        j = text.find("'", i + 2)
        # '\'' case
        if j == i + 2:
            j = text.find("'", i + 3)
        return n if j < 0 else j + 1
    if i + 2 < n and text[i + 2] == "'":
        return i + 3
    # lifetime or label
    j = i + 1
    while j < n and (text[j].isalnum() or text[j] == '_'):
        j += 1
    return j


_OPEN = '{(['
_CLOSE = '})]'


def match_close(m, i):
    """m is masked text, m[i] is an opening bracket; return index just after its partner."""
    depth = 0
    n = len(m)
    j = i
    while j < n:
        c = m[j]
        if c in _OPEN:
            depth += 1
        elif c in _CLOSE:
            depth -= 1
            if depth == 0:
                return j + 1
        j += 1
    raise AnchorError('unbalanced bracket at offset %d' % i)


def _norm(s):
    return re.sub(r'\s+', ' ', s).strip()


def _strip_attrs(m_header):
    """Remove #[...] / #![...] attribute groups from a masked header string."""
    out = []
    i = 0
    n = len(m_header)
    while i < n:
        if m_header[i] == '#' and re.match(r'#!?\[', m_header[i:i + 3]):
            k = m_header.index('[', i)
            i = match_close(m_header, k)
        else:
            out.append(m_header[i])
            i += 1
    return ''.join(out)


class Block:
    __slots__ = ('header', 'hstart', 'open', 'end')

    def __init__(self, header, hstart, open_, end):
        self.header = header   # normalised header text without attributes
        self.hstart = hstart   # start of the header incl. attributes and doc comments (byte offset)
        self.open = open_      # offset of '{'
        self.end = end         # offset just after '}'


def blocks(text, m, a, b):
    """Yield the brace blocks that are direct children of span [a,b) of masked text m."""
    i = a
    item_start = a
    while i < b:
        c = m[i]
        if c == ';':
            item_start = i + 1
            i += 1
        elif c == '{':
            e = match_close(m, i)
            hdr = _norm(_strip_attrs(m[item_start:i]))
            # header start in the original text: skip leading whitespace
            hs = item_start
            while hs < i and text[hs].isspace():
                hs += 1
            yield Block(hdr, hs, i, e)
            item_start = e
            i = e
        elif c in '([':
            i = match_close(m, i)
        else:
            i += 1


class Item:
    def __init__(self, text, start, sig_start, open_, end, header):
        self.text = text
        self.start = start          # incl. doc comments / attributes
        self.sig_start = sig_start  # first token of the signature (after attributes)
        self.open = open_           # '{' of the body (or -1)
        self.end = end
        self.header = header

    @property
    def signature(self):
        return self.text[self.sig_start:self.open].strip()

    @property
    def body(self):
        return self.text[self.open:self.end]

    @property
    def full(self):
        return self.text[self.sig_start:self.end]


def _sig_start(text, m, blk):
    """Offset of the first signature token of a block (after doc comments and attributes)."""
    i = blk.hstart
    while i < blk.open:
        if m[i].isspace():
            i += 1
        elif m[i] == '#':
            k = m.index('[', i)
            i = match_close(m, k)
        else:
            break
    return i


def _scope_matches(text, m, a, b, want):
    w = _norm(want)
    if w.startswith('~'):
        # `~TEXT`: the block whose header ENDS with TEXT (multi-line generic impl headers share their beginning)
        w = w[1:].strip()
        return [blk for blk in blocks(text, m, a, b) if blk.header.endswith(w)]
    return [blk for blk in blocks(text, m, a, b) if blk.header.startswith(w) or
            re.sub(r'^(pub(\([a-z]+\))? )', '', blk.header).startswith(w)]


def resolve_scope_multi(text, m, scope):
    """All spans the scope path denotes: every element but the last must be unique; the last one may match several
    blocks (e.g. several `impl` blocks with the same header) -- the caller keeps the one that contains the item."""
    a, b = 0, len(text)
    for k, want in enumerate(scope):
        found = _scope_matches(text, m, a, b, want)
        if k == len(scope) - 1:
            if not found:
                raise AnchorError('scope %r matched 0 blocks' % (want,))
            return [(blk.open + 1, blk.end - 1) for blk in found]
        if len(found) != 1:
            raise AnchorError('scope %r matched %d blocks' % (want, len(found)))
        a, b = found[0].open + 1, found[0].end - 1
    return [(a, b)]


def resolve_scope(text, m, scope):
    spans = resolve_scope_multi(text, m, scope)
    if len(spans) != 1:
        raise AnchorError('scope %r matched %d blocks' % (scope[-1], len(spans)))
    return spans[0]


_KINDS = {
    'fn': r'(?:^|\s)fn\s+%s\b',
    'struct': r'(?:^|\s)struct\s+%s\b',
    'enum': r'(?:^|\s)enum\s+%s\b',
    'trait': r'(?:^|\s)trait\s+%s\b',
    'macro': r'^macro_rules!\s*%s\b',
    'impl': r'^impl\b.*%s',
    'mod': r'(?:^|\s)mod\s+%s\b',
}


def _find_item_in(text, m, a, b, scope, item):
    """item = 'fn NAME' | 'struct NAME' | 'enum NAME' | 'macro NAME' | 'const NAME'."""
    kind, name = item.split(None, 1)
    if kind == 'const' or kind == 'static':
        rx = re.compile(r'(?m)^[ \t]*(?:pub(?:\([a-z]+\))?\s+)?%s\s+%s\s*:' % (kind, re.escape(name)))
        hits = []
        for mm in rx.finditer(m, a, b):
            # must be a direct child: depth 0 relative to span
            if _depth(m, a, mm.start()) == 0:
                end = _stmt_end(m, mm.start())
                s = mm.start()
                while text[s].isspace():
                    s += 1
                hits.append(Item(text, s, s, -1, end, _norm(m[s:end])))
        if len(hits) != 1:
            raise AnchorError('%r in scope %r matched %d items' % (item, scope, len(hits)))
        return hits[0]
    rx = re.compile(_KINDS[kind] % re.escape(name))
    hits = [blk for blk in blocks(text, m, a, b) if rx.search(blk.header)]
    if len(hits) != 1:
        raise AnchorError('%r in scope %r matched %d items' % (item, scope, len(hits)))
    blk = hits[0]
    return Item(text, blk.hstart, _sig_start(text, m, blk), blk.open, blk.end, blk.header)


def find_item(text, scope, item, m=None):
    """item = 'fn NAME' | 'struct NAME' | 'enum NAME' | 'macro NAME' | 'const NAME'.  When the last scope element matches
    several blocks, the item must exist in exactly one of them."""
    if m is None:
        m = mask(text)
    spans = resolve_scope_multi(text, m, scope)
    hits, err = [], None
    for (a, b) in spans:
        try:
            hits.append(_find_item_in(text, m, a, b, scope, item))
        except AnchorError as e:
            err = e
    if len(hits) == 1:
        return hits[0]
    if not hits:
        raise err
    raise AnchorError('%r found in %d blocks matching scope %r' % (item, len(hits), scope))


def _depth(m, a, pos):
    d = 0
    for c in m[a:pos]:
        if c == '{':
            d += 1
        elif c == '}':
            d -= 1
    return d


def _stmt_end(m, i):
    n = len(m)
    while i < n:
        c = m[i]
        if c in _OPEN:
            i = match_close(m, i)
        elif c == ';':
            return i + 1
        else:
            i += 1
    return n


def loops(body, mbody=None):
    """Return offsets (relative to body) of the '{' opening each loop body, in source order, for
    `loop`, `while`, `for` at any nesting depth."""
    if mbody is None:
        mbody = mask(body)
    res = []
    for mm in re.finditer(r'\b(loop|while|for)\b', mbody):
        kw = mm.group(1)
        i = mm.end()
        if kw == 'for':
            # `for<'a>` HRTB is not a loop
            rest = mbody[i:i + 2].lstrip()
            if rest.startswith('<'):
                continue
        # find the block '{' at bracket depth 0 (struct literals are not allowed in loop heads)
        n = len(mbody)
        while i < n:
            c = mbody[i]
            if c in '([':
                i = match_close(mbody, i)
            elif c == '{':
                res.append((mm.start(), i))
                break
            else:
                i += 1
    return res
