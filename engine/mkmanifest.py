#!/usr/bin/env python3
"""Regenerate MANIFEST.json from props/*.json (claimed) and props/not_applicable.json."""
import json, os, glob
V = os.path.dirname(os.path.dirname(os.path.abspath(__file__)))
na = json.load(open(os.path.join(V, 'props', 'not_applicable.json')))
checks = []
claimed = []
for p in sorted(glob.glob(os.path.join(V, 'props', 'C*.json'))):
    pid = os.path.basename(p)[:-5]
    c = json.load(open(p))
    claimed.append(pid)
    checks.append({
        'property_id': pid,
        'quick_cmd': 'bin/check %s --tier quick' % pid,
        'thorough_cmd': 'bin/check %s --tier thorough' % pid,
        'evidence_file': 'evidence/%s.json' % pid,
        'replay_cmd_template': 'bin/check %s --replay {path}' % pid,
        'engine': c.get('engine', 'contracts (Verus on extracted bodies + Kani function contracts on the real crates)'),
        'level_claimed': {'category': c.get('level', 'proof'), 'text': c['claim'], 'design_ref': c.get('design_ref', 'DESIGN.md section 3 ' + pid)},
        'level_note': 'Trusted: ' + '; '.join(c.get('trusted_base', [])) + '. Assumed: ' + '; '.join(c.get('assumptions', [])) + '. NOT covered: ' + '; '.join(c.get('not_covered', [])),
        'technique': c.get('technique', 'contract-based deductive verification: Verus requires/ensures on mechanically extracted real bodies; Kani function contracts / harnesses on the real crates'),
    })
m = {
    'version': 1,
    'setup_cmd': 'bin/setup',
    'hooks': {'guard': 'kani', 'enable': 'no source hooks in /repo: contracts and harness modules are injected under cfg(kani) into a per-run scratch copy of /repo by engine/kx.py; engine V extracts function bodies per run',
              'baseline_off_cmd': 'cd /repo && cargo nextest run --workspace --no-fail-fast --test-threads 8 --offline',
              'source_commits': [], 'add_only': True},
    'engines': [
        {'name': 'V', 'path': 'engine/vx.py', 'serves_properties': claimed, 'kind_free_text': 'Verus 0.2026.09.13 on function bodies extracted mechanically from /repo on every run, contracts spliced after the signature / loop headers'},
        {'name': 'K', 'path': 'engine/kx.py', 'serves_properties': claimed, 'kind_free_text': 'Kani 0.68 function contracts (requires/ensures/modifies, proof_for_contract) and assert-harnesses on the real crates, injected into a scratch copy'},
    ],
    'checks': checks,
    'not_applicable': [x for x in na if x['property_id'] not in claimed],
    'notes': 'See DESIGN.md. Exit 2 of a check = undecided (anchor lost / tool limit), never a VIOLATION.',
}
json.dump(m, open(os.path.join(V, 'MANIFEST.json'), 'w'), indent=1)
print('claimed', claimed, 'n/a', [x['property_id'] for x in m['not_applicable']])
